package main

// C17, end to end: the real run.Reloader (NewReloaderFromConfigFile -> StartOrchestrator -> LaunchInputs)
// with a syslog TCP input, the byKeySet orchestrator, hybrid buffers and a Fluentd forward output to a fake
// server, as run/reloader_test.go does; while a client keeps sending records the configuration file is
// replaced and reloaded: valid (the text added to every record changes), invalid (broken YAML, unknown
// field) and incompatible (maxFields, orchestration keys) files.  Reload is triggered through the verif
// hook (kind 2, mode 0) or by a real SIGHUP in a child process (mode 1).
//
// Oracle: every record sent arrives (at least once); the configuration versions seen on the records are
// monotone in the order of sending and the records sent after the last reload carry the version of the
// last VALID configuration; slogagent_reloads_total{failure} / {success} advance by exactly the number of
// failed / successful reloads.

import (
	"bufio"
	"fmt"
	"net"
	"os"
	"os/exec"
	"path/filepath"
	"strconv"
	"strings"
	"sync"
	"syscall"
	"time"

	"github.com/relex/fluentlib/server"
	"github.com/relex/fluentlib/server/receivers"
	"github.com/relex/gotils/logger"
	"github.com/relex/slog-agent/run"
)

const c17E2EConf = `
anchors: []
schema:
  fields: [facility, level, time, host, app, pid, source, extradata, log, sn]
  maxFields: %MAXFIELDS%
inputs:
  - type: syslog
    address: localhost:0
    levelMapping: [off, fatal, crit, error, warn, notice, info, debug]
    extractions:
      - type: delFields
        keys: [facility, pid]
orchestration:
  type: byKeySet
  keys: %KEYS%
  tag: development.$app
metricKeys: [host]
transformations:
  - type: extractTail
    key: log
    pattern: ', [0-9]'
    maxLen: 20
    destKey: sn
  - type: addFields
    fields:
      log: $log v%VERSION%
%EXTRA%
outputBufferPairs:
  - name: testPairName
    buffer:
        type: hybridBuffer
        rootPath: %BUFDIR%
        maxBufSize: 1GB
    output:
        type: fluentdForward
        serialization:
            environmentFields: [host, app, source]
            hiddenFields: []
            rewriteFields: {}
        messageMode: CompressedPackedForward
        upstream:
            address: %UPSTREAM%
            tls: false
            secret: Hi
            maxDuration: 500ms
`

func c17E2EConfig(bufDir, upstream string, version int, kind int) string {
	s := c17E2EConf
	maxFields, keys, extra := "12", "[app]", ""
	switch kind {
	case 1:
		return "schema: [unclosed\n  fields: {"
	case 2:
		maxFields = "13"
	case 3:
		keys = "[app, source]"
	case 4:
		extra = "  - type: delFields\n    keys: [nosuchfield]\n"
	}
	s = strings.ReplaceAll(s, "%MAXFIELDS%", maxFields)
	s = strings.ReplaceAll(s, "%KEYS%", keys)
	s = strings.ReplaceAll(s, "%VERSION%", strconv.Itoa(version))
	s = strings.ReplaceAll(s, "%EXTRA%", extra)
	s = strings.ReplaceAll(s, "%BUFDIR%", bufDir)
	s = strings.ReplaceAll(s, "%UPSTREAM%", upstream)
	return s
}

type c17Collector struct {
	mu       sync.Mutex
	versions map[int][]int // serial number -> versions seen (one per arrival)
	bad      []string
}

func (c *c17Collector) Accept(msg receivers.ClientMessage) error {
	c.mu.Lock()
	defer c.mu.Unlock()
	for _, e := range msg.Entries {
		snStr, _ := e.Record["sn"].(string)
		sn, err := strconv.Atoi(strings.TrimSpace(snStr))
		lg, _ := e.Record["log"].(string)
		i := strings.LastIndex(lg, " v")
		if err != nil || i < 0 {
			c.bad = append(c.bad, fmt.Sprintf("%v", e.Record))
			continue
		}
		v, err := strconv.Atoi(lg[i+2:])
		if err != nil {
			c.bad = append(c.bad, fmt.Sprintf("%v", e.Record))
			continue
		}
		c.versions[sn] = append(c.versions[sn], v)
	}
	return nil
}
func (c *c17Collector) Tick() error { return nil }
func (c *c17Collector) End() error  { return nil }

func (c *c17Collector) count() int {
	c.mu.Lock()
	defer c.mu.Unlock()
	return len(c.versions)
}

// c17Within runs fn and reports whether it returned within d (no wait of the harness is unbounded; a stuck
// call is abandoned together with its goroutine)
func c17Within(d time.Duration, fn func()) bool {
	done := make(chan struct{})
	go func() {
		defer func() { recover() }()
		fn()
		close(done)
	}()
	select {
	case <-done:
		return true
	case <-time.After(d):
		return false
	}
}

const c17E2ECallTimeout = 15 * time.Second

func c17ListDir(root string) string {
	var sb strings.Builder
	entries, _ := os.ReadDir(root)
	for _, e := range entries {
		sub, _ := os.ReadDir(filepath.Join(root, e.Name()))
		sb.WriteString(e.Name() + ": [")
		for _, f := range sub {
			sb.WriteString(f.Name() + " ")
		}
		sb.WriteString("] ")
	}
	return sb.String()
}

// c17E2ECore runs the scenario.  mode 0: reloads through the hook while traffic continues; mode 1: the same
// with a real SIGHUP to this process; mode 2 (backlog): the first configuration names an upstream address where
// nothing listens, the records are queued in the old pipelines, the client disconnects, the configuration is
// corrected and reloaded, and NO further traffic arrives - the queued chunks must be taken over by the new
// pipelines and reach the upstream.
func c17E2ECore(kinds []int, perPhase int, mode int) (string, []Fail) {
	sighup := mode == 1
	backlog := mode == 2
	logger.SetLogLevel(logger.FatalLevel)
	tmp, err := os.MkdirTemp("", "c17e2e")
	if err != nil {
		return "e2e-setup-error", nil
	}
	defer os.RemoveAll(tmp)
	bufDir := filepath.Join(tmp, "buf")
	os.MkdirAll(bufDir, 0o755)
	confPath := filepath.Join(tmp, "conf.yml")

	coll := &c17Collector{versions: map[int][]int{}}
	srv, srvAddr := server.LaunchServer(logger.WithField("test", "c17"), server.Config{Address: "localhost:0", Secret: "Hi"}, coll)
	defer c17Within(5*time.Second, srv.Shutdown)

	upstream := srvAddr.String()
	firstUpstream := upstream
	if backlog {
		// a local address where nothing listens
		ln, lerr := net.Listen("tcp", "localhost:0")
		if lerr != nil {
			return "e2e-setup-error", nil
		}
		firstUpstream = ln.Addr().String()
		ln.Close()
	}
	version := 0
	os.WriteFile(confPath, []byte(c17E2EConfig(bufDir, firstUpstream, version, 0)), 0o644)
	ld, confErr := run.NewReloaderFromConfigFile(confPath, fmt.Sprintf("c17e2e%d_", time.Now().UnixNano()))
	if confErr != nil {
		return "e2e-setup-error", []Fail{{"c17:e2e-setup", confErr.Error()}}
	}
	orc := ld.StartOrchestrator(logger.Root())
	rorc := orc.(*run.ReloadableOrchestrator)
	addrs, shutdownIn := ld.LaunchInputs(orc)
	conn, err := net.DialTimeout("tcp", addrs[0], 5*time.Second)
	if err != nil {
		return "e2e-setup-error", []Fail{{"c17:e2e-setup", err.Error()}}
	}
	s0, f0 := run.VerifReloadCounts()

	var fails []Fail
	var failMu sync.Mutex
	addFail := func(f Fail) {
		failMu.Lock()
		fails = append(fails, f)
		failMu.Unlock()
	}
	sent := 0
	var sendMu sync.Mutex
	send := func(n int, pause time.Duration) {
		for i := 0; i < n; i++ {
			sendMu.Lock()
			sent++
			sn := sent
			sendMu.Unlock()
			line := fmt.Sprintf("<167>1 2020-07-20T03:48:20.154+03:00 host1 appServ/foo.com 51629 cron.log - Test msg, %d\n", sn)
			conn.SetWriteDeadline(time.Now().Add(c17E2ECallTimeout))
			if _, werr := conn.Write([]byte(line)); werr != nil {
				addFail(Fail{"c17:e2e-send", "the agent does not take the client's data any more: " + werr.Error()})
				return
			}
			if pause > 0 {
				time.Sleep(pause)
			}
		}
	}
	stuck := false
	reload := func() bool {
		if !sighup {
			return c17Within(c17E2ECallTimeout, rorc.VerifReload)
		}
		sb, fb := run.VerifReloadCounts()
		syscall.Kill(os.Getpid(), syscall.SIGHUP)
		for i := 0; i < int(c17E2ECallTimeout/(5*time.Millisecond)); i++ {
			sa, fa := run.VerifReloadCounts()
			if sa+fa > sb+fb {
				return true
			}
			time.Sleep(5 * time.Millisecond)
		}
		return false
	}

	send(perPhase, 0)
	nfail, nsucc := 0, 0
	sawFailed := false
	desc := fmt.Sprintf("mode %d, reload kinds %v", mode, kinds)
	if backlog {
		// the client disconnects; its records end up queued in the pipelines of the first configuration
		conn.Close()
		time.Sleep(800 * time.Millisecond)
		if n := coll.count(); n != 0 {
			addFail(Fail{"c17:e2e-setup", "records reached the upstream although the configured address is dead"})
		}
	}
	for _, k := range kinds {
		done := make(chan struct{})
		if !backlog {
			// traffic continues while the file is replaced and the reload runs
			go func() { send(perPhase, 200*time.Microsecond); close(done) }()
			time.Sleep(time.Duration(perPhase/4) * 200 * time.Microsecond)
		} else {
			close(done)
		}
		v := version
		if k == 0 {
			v = version + 1
		}
		os.WriteFile(confPath, []byte(c17E2EConfig(bufDir, upstream, v, k)), 0o644)
		if !reload() {
			stuck = true
			sig := "c17:e2e-reload-stuck"
			if sawFailed {
				sig = "c17:stuck-after-failed-reload"
			}
			addFail(Fail{sig, fmt.Sprintf("reload (kind %d) did not complete within %s: %s", k, c17E2ECallTimeout, desc)})
			break
		}
		if k == 0 {
			version++
			nsucc++
		} else {
			nfail++
			sawFailed = true
		}
		select {
		case <-done:
		case <-time.After(c17E2ECallTimeout + 5*time.Second):
			stuck = true
		}
		if stuck {
			break
		}
	}
	firstFinal := sent + 1
	if !backlog && !stuck {
		send(perPhase, 0)
		conn.Close()
	}

	deadline := time.Now().Add(40 * time.Second)
	if stuck {
		deadline = time.Now().Add(3 * time.Second)
	} else if backlog {
		deadline = time.Now().Add(20 * time.Second) // upstream reachable, nothing else to wait for
	}
	for coll.count() < sent && time.Now().Before(deadline) {
		time.Sleep(20 * time.Millisecond)
	}
	s1, f1 := run.VerifReloadCounts()
	dirs := c17ListDir(bufDir)
	if !c17Within(c17E2ECallTimeout, func() { shutdownIn(); orc.Shutdown() }) {
		sig := "c17:e2e-shutdown-stuck"
		if sawFailed {
			sig = "c17:stuck-after-failed-reload"
		}
		addFail(Fail{sig, "inputs / orchestrator cannot be shut down (connection handlers blocked): " + desc})
		stuck = true
	}

	coll.mu.Lock()
	defer coll.mu.Unlock()
	failMu.Lock()
	defer failMu.Unlock()
	var lost []string
	for sn := 1; sn <= sent; sn++ {
		if len(coll.versions[sn]) == 0 {
			lost = append(lost, strconv.Itoa(sn))
		}
	}
	desc += fmt.Sprintf(", %d records", sent)
	if len(lost) > 0 {
		n := len(lost)
		if n > 10 {
			lost = lost[:10]
		}
		if backlog {
			fails = append(fails, Fail{"c17:e2e-queued-chunks-not-taken-over",
				fmt.Sprintf("%d records queued in the old pipelines (upstream unreachable) did not reach the upstream after the reload with the corrected configuration, no new pipeline took the saved chunks over (e.g. %s); buffer dirs: %s; %s",
					n, strings.Join(lost, ","), dirs, desc)})
		} else {
			fails = append(fails, Fail{"c17:e2e-lost", fmt.Sprintf("%d records never arrived (e.g. %s): %s", n, strings.Join(lost, ","), desc)})
		}
	}
	if len(coll.bad) > 0 {
		fails = append(fails, Fail{"c17:e2e-garbled", coll.bad[0] + ": " + desc})
	}
	// versions monotone in the order of sending; the last batch carries the last valid version
	prev := 0
	finalV := -1
	for sn := 1; sn <= sent; sn++ {
		vs := coll.versions[sn]
		if len(vs) == 0 {
			continue
		}
		v := vs[0]
		if v < prev {
			fails = append(fails, Fail{"c17:e2e-order", fmt.Sprintf("record %d processed by configuration v%d after record(s) by v%d: %s", sn, v, prev, desc)})
			break
		}
		prev = v
		if sn >= firstFinal {
			if finalV == -1 {
				finalV = v
			}
			if v != version {
				fails = append(fails, Fail{"c17:e2e-wrong-config", fmt.Sprintf("record %d sent after the last reload was processed by v%d, expected v%d: %s", sn, v, version, desc)})
				break
			}
		}
	}
	df, ds := int(f1-f0), int(s1-s0)
	if !stuck && (df != nfail || ds != nsucc) {
		fails = append(fails, Fail{"c17:e2e-reload-accounting", fmt.Sprintf("failures +%d (expected %d), successes +%d (expected %d): %s", df, nfail, ds, nsucc, desc)})
	}
	if backlog {
		finalV = ds // no record is sent after the reload: the configuration in force is the number of successful reloads
	}
	cls := "e2e"
	if stuck {
		cls = "e2e-stuck"
	} else if len(lost) > 0 {
		cls = "e2e-lost"
	}
	return fmt.Sprintf("%s:F=%d;S=%d;C=%d", cls, df, ds, finalV), fails
}

// c17RunE2E: zargs = mode :: perPhase :: reload kinds
func c17RunE2E(c *Case) (string, []Fail) {
	if len(c.Z) < 2 {
		return "badcase", nil
	}
	mode, per := int(c.Z[0]), int(c.Z[1])
	var kinds []int
	for _, k := range c.Z[2:] {
		kinds = append(kinds, int(k))
	}
	if per < 1 || per > 100000 {
		return "badcase", nil
	}
	if mode == 0 || mode == 2 {
		return c17E2ECore(kinds, per, mode)
	}
	// real SIGHUP: in a child process (every ReloadableOrchestrator of a process reacts to the signal)
	args := []string{"C17", "child", "e2e", strconv.Itoa(per)}
	for _, k := range kinds {
		args = append(args, strconv.Itoa(k))
	}
	cmd := exec.Command(os.Args[0], args...)
	cmd.Stderr = nil
	outPipe, err := cmd.StdoutPipe()
	if err != nil || cmd.Start() != nil {
		return "e2e-setup-error", []Fail{{"c17:e2e-setup", "cannot start the child process"}}
	}
	var out string
	var fails []Fail
	killer := time.AfterFunc(150*time.Second, func() { cmd.Process.Kill() })
	defer killer.Stop()
	sc := bufio.NewScanner(outPipe)
	sc.Buffer(make([]byte, 1<<20), 1<<20)
	for sc.Scan() {
		line := sc.Text()
		if strings.HasPrefix(line, "RESULT ") {
			out = strings.TrimPrefix(line, "RESULT ")
		} else if strings.HasPrefix(line, "FAIL ") {
			p := strings.SplitN(strings.TrimPrefix(line, "FAIL "), "\t", 2)
			if len(p) == 2 {
				fails = append(fails, Fail{p[0], p[1]})
			}
		}
	}
	cmd.Wait()
	if out == "" {
		return "e2e-child-died", []Fail{{"c17:e2e-child-died", fmt.Sprintf("the agent process died during reloads %v", kinds)}}
	}
	return out, fails
}

func c17Child(args []string) {
	if len(args) < 2 || args[0] != "e2e" {
		os.Exit(2)
	}
	per, _ := strconv.Atoi(args[1])
	var kinds []int
	for _, a := range args[2:] {
		k, _ := strconv.Atoi(a)
		kinds = append(kinds, k)
	}
	out, fails := c17E2ECore(kinds, per, 1)
	fmt.Printf("RESULT %s\n", out)
	for _, f := range fails {
		fmt.Printf("FAIL %s\t%s\n", f.Sig, strings.ReplaceAll(f.Desc, "\n", " "))
	}
}
