package main

func c17RunListenerTrace(c *Case) (string, []Fail) { return "badcase", nil }
func c17RunE2E(c *Case) (string, []Fail)           { return "badcase", nil }
