package main

// C06 kind 8: several input connections deliver records of their own key sets AT THE SAME TIME.
//
// Implementation under test (real code): obykeyset.NewOrchestrator, one sink per connection through NewSink (with its own
// client number), Accept / Close from G goroutines that are released together, new connections opened by a goroutine while
// the others are accepting, Shutdown. The pipelines are the recording PipelineStarter's: every pipeline's goroutine reads
// the key fields of each record it receives FROM THE RECORD and counts them per key tuple.
//
// Why this kind exists: in kinds 1-7 the harness drives all sinks from one goroutine, so nothing that is shared between
// sinks can ever be observed in an inconsistent state (seeded change C06/4: one FieldSetExtractor copied into every sink
// shares its scratch slice; the key values a sink has extracted are overwritten by another connection before they are
// merged into the lookup key). The model (Model/RoutingConc.v) has the sinks as processes whose steps interleave in any
// order; by C06_conc_schedule_independent the outcome does not depend on the interleaving, so the model under the
// schedule drawn here (seed, burst) must agree with the implementation under the schedule of the Go runtime.
//
// Case: sargs = template, n key names, then the programs of the goroutines (n values per record);
//       zargs = n, goroutines G, Accept calls per goroutine, repetitions of the program per Accept (batch = rep x program),
//               Accept calls per connection (0 = one connection), schedule seed and burst (model only), the G program lengths.
// Output: the pipelines (id/tag/labels; sorted, distinct) # the distinct "record's key tuple > pipeline" pairs # records received.
//
// Oracle (independent of the model, what the property states): every record is delivered by a pipeline whose id (queue
// name), tag and key_* labels are those of the record's own key values; a pipeline serves one key tuple and a key tuple has
// one pipeline; no pipeline exists that serves no record; every record sent arrives exactly once.

import (
	"fmt"
	"runtime"
	"sort"
	"strconv"
	"strings"
	"sync"
	"time"

	"github.com/relex/gotils/logger"
	"github.com/relex/gotils/promexporter/promreg"
	"github.com/relex/slog-agent/base"
	"github.com/relex/slog-agent/defs"
	"github.com/relex/slog-agent/orchestrate/obase"
	"github.com/relex/slog-agent/orchestrate/obykeyset"
)

type c06ConcCase struct {
	tmpl    string
	names   []string
	n       int
	progs   [][][]string // per goroutine: the key tuples of one round
	accepts int
	rep     int
	per     int
}

func c06ConcDecode(c *Case) (*c06ConcCase, bool) {
	if len(c.Z) < 7 || len(c.S) < 1 {
		return nil, false
	}
	in := func(v int64, lo, hi int64) bool { return v >= lo && v <= hi }
	if !in(c.Z[0], 1, 8) || !in(c.Z[1], 1, 16) || !in(c.Z[2], 0, 100000) || !in(c.Z[3], 1, 1000) || !in(c.Z[4], 0, 100000) ||
		!in(c.Z[5], 0, 2147483647) || !in(c.Z[6], 1, 1000) {
		return nil, false
	}
	cc := &c06ConcCase{tmpl: string(c.S[0]), n: int(c.Z[0]), accepts: int(c.Z[2]), rep: int(c.Z[3]), per: int(c.Z[4])}
	g := int(c.Z[1])
	if len(c.Z) != 7+g || len(c.S) < 1+cc.n {
		return nil, false
	}
	cc.names, _ = c06Names(cc.n, c, 1)
	vals := c.S[1+cc.n:]
	for i := 0; i < g; i++ {
		l := c.Z[7+i]
		if l < 0 || int64(len(vals)) < l*int64(cc.n) {
			return nil, false
		}
		k := int(l) * cc.n
		prog, ok := c06Tuples(cc.n, vals[:k])
		if !ok && k > 0 {
			return nil, false
		}
		cc.progs = append(cc.progs, prog)
		vals = vals[k:]
	}
	if len(vals) != 0 {
		return nil, false
	}
	return cc, true
}

func (cc *c06ConcCase) String() string {
	return fmt.Sprintf("template %q keys %q, %d goroutines with the key sets %q, %d Accept calls each of %d x the key sets, a new connection every %d calls (0 = never)",
		cc.tmpl, cc.names, len(cc.progs), cc.progs, cc.accepts, cc.rep, cc.per)
}

// what one pipeline saw
type c06ConcPipe struct {
	id, tag string
	labels  []string
	counts  map[string]int      // tuple key -> records received (written by the pipeline's goroutine only)
	tuples  map[string][]string // tuple key -> the key values
	from    map[string]int      // tuple key -> a goroutine that sent such a record (for the report)
}

type c06ConcRecorder struct {
	mu    sync.Mutex
	pipes []*c06ConcPipe
	n     int
}

func (rec *c06ConcRecorder) starter(parentLogger logger.Logger, mc promreg.MetricCreator,
	input <-chan []*base.LogRecord, bufferID string, outputTag string, onStopped func()) {
	p := &c06ConcPipe{id: bufferID, tag: outputTag, counts: map[string]int{}, tuples: map[string][]string{}, from: map[string]int{}}
	if w, ok := mc.(*c06MC); ok {
		p.labels = w.keyLabels()
	}
	rec.mu.Lock()
	rec.pipes = append(rec.pipes, p)
	rec.mu.Unlock()
	n := rec.n
	go func() {
		defer onStopped()
		for batch := range input {
			for _, r := range batch {
				if len(r.Fields) <= n {
					continue
				}
				t := []string(r.Fields[:n])
				k := c06TupleKey(t)
				if _, seen := p.counts[k]; !seen {
					p.tuples[k] = append([]string{}, t...)
					p.from[k], _ = strconv.Atoi(r.Fields[n])
				}
				p.counts[k]++
			}
		}
	}()
}

func c06ConcRender(p *c06ConcPipe) string {
	return c06Hex(p.id) + "/" + c06Hex(p.tag) + "/" + c06HexTuple(p.labels)
}

func c06SortedDistinct(xs []string) []string {
	sort.Strings(xs)
	var out []string
	for i, x := range xs {
		if i == 0 || x != xs[i-1] {
			out = append(out, x)
		}
	}
	return out
}

const c06ConcDeadline = 30 * time.Second

func c06RunConc(c *Case) (out string, fails []Fail) {
	cc, ok := c06ConcDecode(c)
	if !ok {
		return "badcase", nil
	}
	sch, ok := c06Schema(cc.names)
	if !ok {
		return "badcase", nil
	}
	if _, err := obase.NewTagBuilder(cc.tmpl, cc.names); err != nil {
		if _, refOK := c06RefParse(cc.tmpl, cc.names); refOK {
			fails = append(fails, Fail{"c06:tmpl:rejected", fmt.Sprintf("template %q over %q rejected: %v", cc.tmpl, cc.names, err)})
		}
		return "err:tmpl", fails
	}
	// real parallelism: at least 4 Ps whatever the previous cases left behind
	procs := runtime.GOMAXPROCS(0)
	want := runtime.NumCPU()
	if want < 4 {
		want = 4
	}
	runtime.GOMAXPROCS(want)
	maxLogs := defs.IntermediateBufferMaxNumLogs
	defs.IntermediateBufferMaxNumLogs = 64 // the sinks hand over to the pipeline's channel every 64 records
	defer func() {
		defs.IntermediateBufferMaxNumLogs = maxLogs
		runtime.GOMAXPROCS(procs)
	}()

	rec := &c06ConcRecorder{n: cc.n}
	mc := &c06MC{MetricCreator: promreg.NewMetricFactory("c06c_", nil, nil)}
	var panicMu sync.Mutex
	var panics []string
	notePanic := func(where string, r interface{}) {
		panicMu.Lock()
		panics = append(panics, fmt.Sprintf("%s: %v", where, r))
		panicMu.Unlock()
	}
	sent := map[string]int{}
	sentTuples := map[string][]string{}
	for _, prog := range cc.progs {
		for _, t := range prog {
			k := c06TupleKey(t)
			sent[k] += cc.accepts * cc.rep
			sentTuples[k] = t
		}
	}

	done := make(chan struct{})
	go func() {
		defer close(done)
		defer func() {
			if r := recover(); r != nil {
				notePanic("orchestrator", r)
			}
		}()
		orch := obykeyset.NewOrchestrator(logger.Root(), sch, cc.names, cc.tmpl, mc, rec.starter, nil)
		start := make(chan struct{})
		var wg sync.WaitGroup
		for gi, prog := range cc.progs {
			// the batch of one Accept: rep x the goroutine's key sets; own record objects and own strings per goroutine
			batch := make([]*base.LogRecord, 0, cc.rep*len(prog))
			for r := 0; r < cc.rep; r++ {
				for _, t := range prog {
					batch = append(batch, c06Record(&sch, t, gi))
				}
			}
			wg.Add(1)
			go func(gi int, batch []*base.LogRecord) {
				defer wg.Done()
				defer func() {
					if r := recover(); r != nil {
						notePanic(fmt.Sprintf("goroutine %d", gi), r)
					}
				}()
				<-start // all goroutines are released together
				conn := 0
				sink := orch.NewSink(fmt.Sprintf("conn%d.%d", gi, conn), base.ClientNumber(gi*1000+conn+1))
				for a := 0; a < cc.accepts; a++ {
					if cc.per > 0 && a > 0 && a%cc.per == 0 {
						sink.Close()
						conn++
						sink = orch.NewSink(fmt.Sprintf("conn%d.%d", gi, conn), base.ClientNumber(gi*1000+conn%1000+1))
					}
					sink.Accept(batch)
				}
				sink.Close()
			}(gi, batch)
		}
		close(start)
		wg.Wait()
		orch.Shutdown() // closes the channels and waits for the pipelines' goroutines: their counts are complete afterwards
	}()
	select {
	case <-done:
	case <-time.After(c06ConcDeadline):
		return "hang", append(fails, Fail{"c06:conc:hang", "concurrent sinks do not finish within 30 s: " + cc.String()})
	}
	if len(panics) > 0 {
		return "panic", append(fails, Fail{"c06:conc:panic", fmt.Sprintf("panic with concurrent sinks (%s): %s", strings.Join(panics, "; "), cc.String())})
	}

	// ---- canonical output ----
	var pipeOut, routeOut []string
	total := 0
	for _, p := range rec.pipes {
		pipeOut = append(pipeOut, c06ConcRender(p))
		for k, cnt := range p.counts {
			routeOut = append(routeOut, c06HexTuple(p.tuples[k])+">"+c06ConcRender(p))
			total += cnt
		}
	}
	out = "ok:" + strings.Join(c06SortedDistinct(pipeOut), ";") + "#" + strings.Join(c06SortedDistinct(routeOut), ";") + "#" + strconv.Itoa(total)

	// ---- oracle ----
	parts, refOK := c06RefParse(cc.tmpl, cc.names)
	if !refOK {
		fails = append(fails, Fail{"c06:tmpl:accepted", fmt.Sprintf("template %q over %q accepted but not a documented template", cc.tmpl, cc.names)})
	}
	ctx := " [" + cc.String() + "]"
	received := map[string]int{}
	servedBy := map[string]*c06ConcPipe{}
	for _, p := range rec.pipes {
		if len(p.counts) == 0 {
			fails = append(fails, Fail{"c06:conc:pipeline-phantom", fmt.Sprintf("a pipeline with id / queue name %q, tag %q, labels %s exists although no record has this key set%s",
				p.id, p.tag, c06Q(p.labels), ctx)})
			continue
		}
		keys := make([]string, 0, len(p.counts))
		for k := range p.counts {
			keys = append(keys, k)
		}
		sort.Strings(keys)
		for _, k := range keys {
			t := p.tuples[k]
			received[k] += p.counts[k]
			if _, isSent := sent[k]; !isSent {
				fails = append(fails, Fail{"c06:conc:record-invented", fmt.Sprintf("a record with keys %s arrives although none was sent%s", c06Q(t), ctx)})
			}
			wantID := strings.Join(t, ",")
			wantTag := p.tag
			if refOK {
				wantTag = c06RefExpand(parts, t)
			}
			if p.id != wantID || p.tag != wantTag {
				fails = append(fails, Fail{"c06:conc:misrouted", fmt.Sprintf("%d record(s) with keys %s (sent by goroutine %d) are delivered by the pipeline with id / queue name %q and tag %q; their own are %q and %q%s",
					p.counts[k], c06Q(t), p.from[k], p.id, p.tag, wantID, wantTag, ctx)})
			} else if want := c06RefLabels(t); !c06EqTuple(p.labels, want) {
				fails = append(fails, Fail{"c06:conc:labels-wrong", fmt.Sprintf("records with keys %s are delivered by a pipeline with metric labels %s, their own values give %s%s",
					c06Q(t), c06Q(p.labels), c06Q(want), ctx)})
			}
			if q, dup := servedBy[k]; dup && q != p {
				fails = append(fails, Fail{"c06:conc:pipeline-split", fmt.Sprintf("records with keys %s are delivered by two pipelines (ids %q and %q)%s", c06Q(t), q.id, p.id, ctx)})
			}
			servedBy[k] = p
		}
		if len(keys) > 1 {
			fails = append(fails, Fail{"c06:conc:pipeline-shared", fmt.Sprintf("the pipeline with id %q tag %q delivers records of %d key sets, e.g. %s and %s%s",
				p.id, p.tag, len(keys), c06Q(p.tuples[keys[0]]), c06Q(p.tuples[keys[1]]), ctx)})
		}
	}
	sentKeys := make([]string, 0, len(sent))
	for k := range sent {
		sentKeys = append(sentKeys, k)
	}
	sort.Strings(sentKeys)
	for _, k := range sentKeys {
		if received[k] != sent[k] {
			fails = append(fails, Fail{"c06:conc:lost", fmt.Sprintf("%d records with keys %s were sent, %d arrive%s", sent[k], c06Q(sentTuples[k]), received[k], ctx)})
		}
	}
	return out, fails
}

// ---------------------------------------------------------------------------------------------
// generator

func (g *Gen) c06Conc(cls, tmpl string, names []string, progs [][][]string, accepts, rep, per, burst int) {
	g.Count("conc:" + cls)
	g.Count(fmt.Sprintf("conc:goroutines=%d", len(progs)))
	s := []string{tmpl}
	s = append(s, names...)
	z := []int64{int64(len(names)), int64(len(progs)), int64(accepts), int64(rep), int64(per), int64(g.R.Intn(1 << 30)), int64(burst)}
	for _, p := range progs {
		s = append(s, c06Flat(p)...)
		z = append(z, int64(len(p)))
	}
	g.Case(8, c06B(s...), z)
}

// c06ConcProgs: key sets for G goroutines, L per goroutine, n key fields.
//
//	shape 0: disjoint, every value of the same length ("lv3", "ap3", ..): a mixed tuple (level of one, app of another) is nobody's
//	shape 1: disjoint with values of different lengths (incl. the empty value and a value with a separator-like byte)
//	shape 2: a grid: the goroutines' tuples are a_i x b_j combinations, so a mixed tuple IS another goroutine's own key set
//	shape 3: overlapping: neighbouring goroutines also send one common key set (sharing a pipeline is right then)
//	shape 4: many key sets, two thirds of them sent by ALL goroutines: the same key set is seen for the first time by
//	         several connections at the same moment (the creation of a pipeline under the global map's mutex)
func (g *Gen) c06ConcProgs(shape, G, L, n int) [][][]string {
	progs := make([][][]string, G)
	val := func(gi, l, f int) string {
		switch shape {
		case 1:
			pool := []string{"", "x", "warn", "a-b", "debug-level", "é", "0"}
			return pool[(gi+l+f)%len(pool)] + strings.Repeat("y", (gi*3+l)%4) + strconv.Itoa(gi) + "." + strconv.Itoa(l)
		default:
			return fmt.Sprintf("%c%d%d", 'a'+f, gi%10, l%10)
		}
	}
	for gi := 0; gi < G; gi++ {
		for l := 0; l < L; l++ {
			t := make([]string, n)
			for f := 0; f < n; f++ {
				switch shape {
				case 4:
					if l%3 != 0 {
						t[f] = fmt.Sprintf("%cz%d", 'a'+f, l)
					} else {
						t[f] = fmt.Sprintf("%c%dx%d", 'a'+f, gi, l)
					}
				case 2:
					// field f of goroutine gi: index (gi + f*l) mod G - all goroutines draw from the same G values per field
					t[f] = fmt.Sprintf("%c%d", 'a'+f, (gi+f*(l+1))%G)
				default:
					t[f] = val(gi, l, f)
				}
			}
			progs[gi] = append(progs[gi], t)
		}
		if shape == 3 {
			common := make([]string, n)
			for f := 0; f < n; f++ {
				common[f] = fmt.Sprintf("c%d%d", f, gi/2)
			}
			progs[gi] = append(progs[gi], common)
		}
	}
	return progs
}

func c06ConcGen(g *Gen) {
	r := g.R
	// minimal members: two connections, one key set each, one record per Accept
	for n := 1; n <= 2; n++ {
		g.c06Conc("minimal", c06Templates(n)[0], c06DefaultNames[:n], g.c06ConcProgs(0, 2, 1, n), g.Pick(6000, 20000), 1, 0, 1)
	}
	// the shape of the seed's demonstration: 4 connections, (level, app), batches of 100
	g.c06Conc("batches", "$k0-$k1", c06DefaultNames[:2], g.c06ConcProgs(0, 4, 1, 2), g.Pick(100, 300), 100, 0, 3)
	// budget: records per case (all goroutines together); the model runs every step of every record
	budget := g.Pick(40000, 120000)
	for i := 0; i < g.Pick(25, 400); i++ {
		n := r.Range(1, 3)
		G := r.PickInt([]int{2, 2, 3, 4, 4, 6, 8})
		L := r.Range(1, 3)
		shape := i % 5
		if shape == 4 {
			L = r.PickInt([]int{12, 30, 45})
		}
		tmpls := c06Templates(n)
		tmpl := tmpls[r.Intn(len(tmpls))]
		progs := g.c06ConcProgs(shape, G, L, n)
		perRound := 0
		for _, p := range progs {
			perRound += len(p)
		}
		rep := r.PickInt([]int{1, 1, 3, 10, 50, 200})
		accepts := budget / (perRound * rep)
		if accepts < 1 {
			accepts = 1
			rep = budget / perRound
		}
		per := 0
		switch r.Intn(4) {
		case 1:
			per = 1 + r.Intn(3)
		case 2:
			per = accepts/2 + 1
		}
		if per > 0 && accepts/per > 40 { // at most ~40 connections per goroutine (the model has a process per connection)
			per = accepts/40 + 1
		}
		burst := r.PickInt([]int{1, 1, 2, 5, 40})
		g.c06Conc(fmt.Sprintf("shape%d", shape), tmpl, c06DefaultNames[:n], progs, accepts, rep, per, burst)
	}
	// creation races: many key sets that all connections see for the first time at the same moment, few records each
	// (cheap cases: the number of simultaneous first sights is what counts)
	for i := 0; i < g.Pick(12, 120); i++ {
		n := r.Range(1, 2)
		G := r.PickInt([]int{3, 4, 6})
		progs := g.c06ConcProgs(4, G, r.PickInt([]int{24, 45}), n) // (case lines stay below 60 kB: longer ones cannot enter the kernel sample)
		g.c06Conc("creation", c06Templates(n)[r.Intn(2)], c06DefaultNames[:n], progs, r.Range(2, 4), 1, r.Intn(2)*2, r.PickInt([]int{1, 3}))
	}
	// boundary members: nothing to do, one goroutine, an empty program among busy ones
	g.c06Conc("boundary", "$k0", c06DefaultNames[:1], g.c06ConcProgs(0, 2, 1, 1), 0, 1, 0, 1)
	g.c06Conc("boundary", "$k0", c06DefaultNames[:1], g.c06ConcProgs(0, 1, 2, 1), 50, 2, 7, 1)
	g.c06Conc("boundary", "$k0-$k1", c06DefaultNames[:2], append(g.c06ConcProgs(0, 2, 2, 2), [][]string{}), 200, 2, 0, 2)
}
