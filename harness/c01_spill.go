package main

// c01_spill.go — C01 case kind 4: HISTORIES of repeated spilling under a small maxBufSize.
//
// The property permits exactly one kind of discard: the documented queue / disk-limit overflows.  The kind-1 oracle
// accepts every chunk counted in dropped_chunks_total as such an overflow; it cannot tell a drop at a full queue
// directory from a drop at an (almost) empty one.  This family makes the difference observable: the upstream is
// scripted in PHASES — outage (refuses / never ACKs / resets before the ACK: not one chunk is acknowledged, so not one
// chunk file is removed and the directory only grows), then healthy until the buffer is empty — and the backlog of
// every outage stays BELOW the disk limit (capacity-1 chunks, limit = capacity * Lmax, Lmax an a-priori upper bound of
// a chunk's size, checked against every chunk file seen).  Over 2-6 phases and 0-3 restarts the bytes spilled (and
// recovered) in total exceed the limit several times, while the directory never comes near it.
//
// Oracle (independent of the agent's own accounting): at the end of every outage the harness reads the dropped-chunk
// counter and THEN measures the directory (sum of the chunk file sizes).  A chunk dropped for lack of space at time t
// saw D(t) + len(chunk) > limit; no file was removed between t and the measurement, so D(measured) >= D(t) >
// limit - Lmax.  Hence a drop counted in an outage whose measured directory is <= limit - Lmax — and whose queue
// (defs.BufferMaxNumChunksInQueue) cannot have been full either, because fewer chunks than that exist — is NOT a
// documented overflow: Fail c01:drop-under-limit.  The same at a stop under outage.  Besides: the kind-1 oracle on
// everything observed (every record ACKed or in a queue file after the last stop ...).
//
// Case line: Z = seed, flags, capacity, recordsPerChunk, nphases, (chunks, outage, restart)...
//   flags   bit 0: PackedForward instead of Forward; bit 1: two pipelines (each has its own queue directory and limit)
//   chunks  backlog of the outage in chunks per pipeline (1 .. capacity-1)
//   outage  0 upstream refuses, 1 never ACKs, 2 resets after receiving a chunk (no ACK)
//   restart 0 none; 1 graceful stop + start DURING the outage (backlog saved and recovered);
//           2 graceful stop + start after the buffer has been emptied
// Output: "ok:s=<conn/pipeline:records ACKed or in a queue file after the last stop;...>,f=0,m=0,d=<dropped chunks>";
// the Coq model (Model/SystemQuota.v run_spill_case) runs the history on the transition system whose drop steps are
// guarded by the quota predicate over the CURRENT directory contents and prints the same (d=0).

import (
	"fmt"
	"os"
	"path/filepath"
	"sort"
	"strings"
	"time"
)

type c01SpillPhase struct{ Chunks, Outage, Restart int }

type c01SpillCase struct {
	Seed     uint64
	Flags    int
	Capacity int
	PerChunk int
	Phases   []c01SpillPhase
}

func (sc *c01SpillCase) zargs() []int64 {
	z := []int64{int64(sc.Seed), int64(sc.Flags), int64(sc.Capacity), int64(sc.PerChunk), int64(len(sc.Phases))}
	for _, ph := range sc.Phases {
		z = append(z, int64(ph.Chunks), int64(ph.Outage), int64(ph.Restart))
	}
	return z
}

func c01ParseSpillCase(z []int64) (*c01SpillCase, error) {
	if len(z) < 5 || z[0] < 0 {
		return nil, fmt.Errorf("short case")
	}
	sc := &c01SpillCase{Seed: uint64(z[0]), Flags: int(z[1]), Capacity: int(z[2]), PerChunk: int(z[3])}
	n := int(z[4])
	if sc.Flags < 0 || sc.Flags > 3 || sc.Capacity < 2 || sc.Capacity > 12 || sc.PerChunk < 1 || sc.PerChunk > 6 || n < 1 || n > 10 || len(z) != 5+3*n {
		return nil, fmt.Errorf("bad header")
	}
	for i := 0; i < n; i++ {
		ph := c01SpillPhase{int(z[5+3*i]), int(z[6+3*i]), int(z[7+3*i])}
		if ph.Chunks < 1 || ph.Chunks > sc.Capacity-1 || ph.Outage < 0 || ph.Outage > 2 || ph.Restart < 0 || ph.Restart > 2 {
			return nil, fmt.Errorf("bad phase")
		}
		sc.Phases = append(sc.Phases, ph)
	}
	return sc, nil
}

const c01SpillPayload = "spill history payload 0123456789abcdef"
const c01SpillQueueLen = 64

// bytes of the chunk files of every queue directory of the output, per pipeline id, and the largest file
func c01DirBytes(root string) (map[string]int64, int64) {
	res := map[string]int64{}
	var largest int64
	entries, err := os.ReadDir(root)
	if err != nil {
		return res, 0
	}
	for _, e := range entries {
		if !e.IsDir() {
			continue
		}
		dir := filepath.Join(root, e.Name())
		id, _ := os.ReadFile(filepath.Join(dir, ".id"))
		files, _ := os.ReadDir(dir)
		for _, f := range files {
			if f.IsDir() || !strings.HasSuffix(f.Name(), ".ff") {
				continue
			}
			if info, err := f.Info(); err == nil {
				res[string(id)] += info.Size()
				if info.Size() > largest {
					largest = info.Size()
				}
			}
		}
	}
	return res, largest
}

type c01SpillObs struct {
	Drops    int
	Unjust   []string // descriptions of drops that cannot have been overflows
	LmaxSeen int64
}

func c01SpillExecute(sc *c01SpillCase) (run *c01Run, obs *c01SpillObs) {
	obs = &c01SpillObs{}
	mode := "Forward"
	if sc.Flags&1 != 0 {
		mode = "PackedForward"
	}
	apps := []int{0}
	if sc.Flags&2 != 0 {
		apps = []int{0, 1}
	}
	ksc := &c01Scenario{Seed: sc.Seed, Variant: sc.Flags, Gens: 1, Mode: mode}
	run = &c01Run{Sc: ksc, Records: map[e2eStamp]*e2eRecord{}, SendGen: map[e2eStamp]int{}, Chunks: map[string][]ffChunk{}, Stuck: map[string][]e2eStamp{}}
	dir, err := os.MkdirTemp("", "c01q-")
	if err != nil {
		run.problem("c01:harness", err.Error())
		return
	}
	run.Dir = dir
	defer os.RemoveAll(dir)

	// a-priori upper bound of a chunk of r records: per record the raw line plus the field names and msgpack framing,
	// plus tag/option per chunk — folded into the per-record term, so that ANY split of k records into chunks (the
	// worker's flush tick may close a chunk early) occupies at most ceil(k/r) * lmax bytes
	sample := e2eMakeRecord(e2eStamp{Conn: 99, Seq: 9999}, e2eRecordSpec{Class: rcGood, Pri: 191, App: "ka", Source: "x1", Host: "h1", Payload: c01SpillPayload, TimeIdx: 999})
	lmax := int64(sc.PerChunk * (len(sample.Raw) + 320))
	limit := int64(sc.Capacity) * lmax

	p := e2eDefaultParams()
	p.BatchRecords = 1     // every record goes to its pipeline at once
	p.FlushIntervalMs = 10 // a chunk is closed by the record that follows its last one, or by this tick
	p.InputFlushMs = 5     // the line reader hands the last record of a write on at its read timeout
	p.ChunkMaxRecords = sc.PerChunk
	p.MemLen = 2 // spilling starts when one chunk waits in the window
	p.QueueLen = c01SpillQueueLen
	p.AckPending = 1
	p.AckTimeoutMs = 120
	p.PingMs = 50
	run.Params = p
	e2eApplyParams(p)
	tr := newE2ETrace()
	run.Trace = tr
	run.Outputs = []string{"out1"}
	srv, err := newFakeFluentd("out1", tr)
	if err != nil {
		run.problem("c01:harness", err.Error())
		return
	}
	defer srv.Close()
	cfg := e2eConfig{Dir: dir, Keys: ksc.keys(), Outputs: []e2eOutput{{Name: "out1", Addr: srv.Addr(), Mode: mode, MaxBufSize: fmt.Sprintf("%dB", limit)}}}
	ag, err := e2eNewAgent(cfg, tr)
	if err != nil {
		run.problem("c01:harness", err.Error())
		return
	}
	root := cfg.queueRoot("out1")

	newGen := func() *c01Gen {
		g := &c01Gen{Disk: map[string][]e2eQueueFile{}, Drops: map[string]map[string]int{}, Created: map[string]map[string]int{}, FirstAttempt: map[string]int{}}
		run.Gens = append(run.Gens, g)
		g.StartNano = time.Now().UnixNano()
		return g
	}
	collect := func(g *c01Gen) {
		g.StopNano = time.Now().UnixNano()
		g.Stopped = true
		g.Filtered = int(ag.Metric("process_labelled_records_total", map[string]string{"label": "marker"}))
		g.Malformed = int(ag.Metric("input_dropped_records_total", nil))
		g.Disk["out1"] = ag.QueueFiles("out1")
		g.Drops["out1"] = ag.byPipeline(ag.Generation(), "process_buffer_dropped_chunks_total", "out1")
		g.Created["out1"] = ag.byPipeline(ag.Generation(), "process_chunks_total", "out1")
	}
	outageStep := func(kind int) ffStep {
		switch kind {
		case 1:
			return ffStep{Mode: ffNeverAck}
		case 2:
			return ffStep{Mode: ffResetAfter, K: 1, AckN: 0}
		}
		return ffStep{Mode: ffRefuse}
	}
	sumDrops := func() int {
		n := 0
		for _, g := range run.Gens[:len(run.Gens)-1] {
			for _, v := range g.Drops["out1"] {
				n += v
			}
		}
		for _, v := range ag.byPipeline(ag.Generation(), "process_buffer_dropped_chunks_total", "out1") {
			n += v
		}
		return n
	}
	// judge the drops counted since the last reading against the directory as it is NOW (no file was removed since)
	lastDrops := 0
	chunksAlive := 0 // upper bound of the chunks that exist in the buffer of one pipeline (created or recovered, not yet ACKed)
	judge := func(when string, judged bool) {
		drops := sumDrops()                 // first the counter ...
		sizes, largest := c01DirBytes(root) // ... then the directory
		if largest > obs.LmaxSeen {
			obs.LmaxSeen = largest
		}
		if d := drops - lastDrops; d > 0 && judged {
			var biggest int64
			for _, b := range sizes {
				if b > biggest {
					biggest = b
				}
			}
			if biggest <= limit-lmax && chunksAlive < c01SpillQueueLen {
				obs.Unjust = append(obs.Unjust, fmt.Sprintf("%s: %d chunk(s) were dropped (dropped_chunks_total %d -> %d) while no chunk was acknowledged, yet the fullest queue directory holds %d bytes of chunk files afterwards (per pipeline %v), maxBufSize %d, a chunk is at most %d bytes, and at most %d chunks exist (queue capacity %d): neither limit can have been reached",
					when, d, lastDrops, drops, biggest, sizes, limit, lmax, chunksAlive, c01SpillQueueLen))
			}
		}
		lastDrops = drops
	}

	gen := newGen()
	if err := ag.Start(); err != nil {
		run.problem("c01:harness", "start: "+err.Error())
		return
	}
	running := true
	defer func() {
		if running {
			_ = ag.Stop()
		}
	}()
	var cl *e2eClient
	dial := func() bool {
		c, err := e2eDial(ag.Addr(), len(run.Gens)-1, tr)
		if err != nil {
			run.problem("c01:harness", "dial: "+err.Error())
			return false
		}
		cl = c
		return true
	}
	if !dial() {
		return
	}
	defer func() {
		if cl != nil {
			cl.c.Close()
		}
	}()
	seq := map[int]int{}
	sentThisGen := 0
	wait := 8 * time.Second
	restart := func() bool {
		cl.Close(false)
		if err := ag.Stop(); err != nil {
			running = false
			run.problem("c01:stop-hang", err.Error())
			return false
		}
		running = false
		collect(gen)
		gen = newGen()
		ksc.Gens = len(run.Gens)
		if err := ag.Start(); err != nil {
			run.problem("c01:harness", "restart: "+err.Error())
			return false
		}
		running = true
		sentThisGen = 0
		return dial()
	}
	drain := func(pi int) bool {
		srv.SetTail(ffStep{Mode: ffHealthy})
		srv.KickAll()
		deadline := time.Now().Add(10 * time.Second)
		for {
			sizes, _ := c01DirBytes(root)
			var total int64
			for _, b := range sizes {
				total += b
			}
			if ag.Metric("process_buffer_pending_chunks", nil) == 0 && total == 0 {
				return true
			}
			if time.Now().After(deadline) {
				run.problem("c01:stuck", fmt.Sprintf("spill history seed %d phase %d: upstream healthy for 10 s, but %v chunks are pending and the queue directories hold %d bytes", sc.Seed, pi, ag.Metric("process_buffer_pending_chunks", nil), total))
				return false
			}
			time.Sleep(2 * time.Millisecond)
		}
	}

	t0 := time.Now()
	lap := func(what string) {
		if os.Getenv("VERIF_E2E_TIMING") != "" {
			fmt.Fprintf(os.Stderr, "  spill seed %d %-14s %6.0f ms\n", sc.Seed, what, float64(time.Since(t0))/1e6)
		}
		t0 = time.Now()
	}
	for pi, ph := range sc.Phases {
		step := outageStep(ph.Outage)
		srv.SetScript(nil, step)
		srv.KickAll()
		lastDrops = sumDrops()
		expectIn := int(ag.Metric("process_buffer_input_chunks_total", nil)) + ph.Chunks*len(apps)
		// the backlog: ph.Chunks chunks per pipeline, one chunk at a time — the next one is sent when the buffer has
		// accepted this one (and its feeder has had the time of a tick to move it on), so that the window is occupied and
		// the following chunks are spilled
		conn := len(run.Gens) - 1
		baseIn := expectIn - ph.Chunks*len(apps)
		for cj := 0; cj < ph.Chunks; cj++ {
			// the first three chunks one at a time (client hand, window), the rest of the backlog in one write
			nch := 1
			if cj >= 3 {
				nch = ph.Chunks - cj
			}
			var batch []e2eRecord
			for j := 0; j < sc.PerChunk*nch; j++ {
				for _, a := range apps {
					st := e2eStamp{Conn: conn, Seq: seq[conn]}
					seq[conn]++
					rec := e2eMakeRecord(st, e2eRecordSpec{Class: rcGood, Pri: 8 + (j*7+int(sc.Seed))%180, App: c01Apps[a], Source: "x1", Host: "h1", Payload: c01SpillPayload, TimeIdx: cj*37 + pi})
					batch = append(batch, rec)
				}
			}
			for i := range batch {
				run.Records[batch[i].Stamp] = &batch[i]
			}
			if err := cl.Send(batch, []int{1 << 20}); err != nil {
				run.problem("c01:harness", "send: "+err.Error())
				return
			}
			for _, rec := range batch {
				run.SendGen[rec.Stamp] = conn
				run.SendSeq = append(run.SendSeq, rec.Stamp)
			}
			sentThisGen += len(batch)
			deadline := time.Now().Add(wait)
			cj += nch - 1
			for int(ag.Metric("process_buffer_input_chunks_total", nil)) < baseIn+(cj+1)*len(apps) {
				if time.Now().After(deadline) {
					run.problem("c01:input-stuck", fmt.Sprintf("spill history seed %d phase %d: chunk %d of the backlog does not reach the buffer, input_chunks_total = %v", sc.Seed, pi, cj, ag.Metric("process_buffer_input_chunks_total", nil)))
					return
				}
				time.Sleep(time.Millisecond)
			}
		}
		chunksAlive = ph.Chunks + 1
		if !ag.WaitInputSeen(sentThisGen, wait) {
			run.problem("c01:input-stuck", fmt.Sprintf("spill history seed %d phase %d: the agent's input counters do not reach %d", sc.Seed, pi, sentThisGen))
			return
		}
		// every record has passed the worker; the chunk still open is closed by the next tick.  "No new chunk for three
		// ticks" is only a heuristic for "the whole backlog is in the buffer": the judgement below is sound at any moment,
		// a chunk arriving later is simply delivered in the healthy phase
		deadline := time.Now().Add(wait)
		stableSince, lastIn := time.Now(), -1
		for {
			in := int(ag.Metric("process_buffer_input_chunks_total", nil))
			if in != lastIn {
				lastIn, stableSince = in, time.Now()
			}
			if in >= expectIn && time.Since(stableSince) > 3*ms(p.FlushIntervalMs) {
				break
			}
			if time.Now().After(deadline) {
				run.problem("c01:input-stuck", fmt.Sprintf("spill history seed %d phase %d: at least %d chunks expected in the buffer, input_chunks_total = %d", sc.Seed, pi, expectIn, in))
				return
			}
			time.Sleep(time.Millisecond)
		}
		if os.Getenv("VERIF_E2E_TIMING") != "" {
			sz, lg := c01DirBytes(root)
			fmt.Fprintf(os.Stderr, "  spill seed %d phase %d: persistent %v transient %v dir %v largest %d limit %d lmax %d\n", sc.Seed, pi,
				ag.Metric("process_buffer_input_chunks_total", map[string]string{"state": "persistent"}), ag.Metric("process_buffer_input_chunks_total", map[string]string{"state": "transient"}), sz, lg, limit, lmax)
		}
		lap("backlog")
		judge(fmt.Sprintf("phase %d, outage (%s), backlog %d chunks per pipeline", pi, step, ph.Chunks), true)
		if ph.Restart == 1 {
			if !restart() {
				return
			}
			// the stop saved what was in memory: still no acknowledgement, still no file removed
			judge(fmt.Sprintf("phase %d, graceful stop and start during the outage (%s)", pi, step), true)
		}
		lap("restart1?")
		if !drain(pi) {
			return
		}
		lap("drain")
		judge("", false)
		if ph.Restart == 2 {
			if !restart() {
				return
			}
			judge("", false)
		}
	}
	cl.Close(false)
	if err := ag.Stop(); err != nil {
		running = false
		run.problem("c01:stop-hang", err.Error())
		return
	}
	running = false
	collect(gen)
	obs.Drops = 0
	for _, g := range run.Gens {
		for _, v := range g.Drops["out1"] {
			obs.Drops += v
		}
	}
	if obs.LmaxSeen > lmax {
		run.problem("c01:harness", fmt.Sprintf("spill history seed %d: a chunk file of %d bytes exceeds the assumed upper bound %d", sc.Seed, obs.LmaxSeen, lmax))
	}
	srv.Close()
	run.Chunks["out1"] = srv.Chunks()
	return
}

func c01SpillCaseRun(z []int64) (string, []Fail) {
	sc, err := c01ParseSpillCase(z)
	if err != nil {
		return "badcase", nil
	}
	run, obs := c01SpillExecute(sc)
	var fails []Fail
	for _, u := range obs.Unjust {
		fails = append(fails, Fail{"c01:drop-under-limit", fmt.Sprintf("spill history seed %d (capacity %d chunks, %d records per chunk, phases %v): %s", sc.Seed, sc.Capacity, sc.PerChunk, sc.Phases, u)})
	}
	fails = append(fails, run.Problems...)
	if len(run.Problems) > 0 {
		return "err:" + run.Problems[0].Sig, fails
	}
	var acctFails []Fail
	acct := c01AccountOutput(run, "out1", &acctFails)
	for _, f := range acctFails {
		f.Desc = "spill history: " + f.Desc
		fails = append(fails, f)
	}
	counts := map[c01Stream]int{}
	for st, rec := range run.Records {
		if acct.Acked[st] || acct.Disk[st] {
			counts[c01Stream{st.Conn, run.Sc.pipeNumOfID(strings.Join(rec.KeyValues(run.Sc.keys()), ","))}]++
		}
	}
	var keys []c01Stream
	for k := range counts {
		keys = append(keys, k)
	}
	sort.Slice(keys, func(i, j int) bool {
		if keys[i].Conn != keys[j].Conn {
			return keys[i].Conn < keys[j].Conn
		}
		return keys[i].Pipe < keys[j].Pipe
	})
	var sb strings.Builder
	for i, k := range keys {
		if i > 0 {
			sb.WriteByte(';')
		}
		fmt.Fprintf(&sb, "%d/%d:%d", k.Conn, k.Pipe, counts[k])
	}
	return fmt.Sprintf("ok:s=%s,f=0,m=0,d=%d", sb.String(), obs.Drops), fails
}

// ---------- generator ----------

func c01DrawSpillCase(r *Rng) *c01SpillCase {
	sc := &c01SpillCase{Seed: r.U64() & 0x7fffffff, Flags: r.Intn(2), Capacity: 8 + r.Intn(4), PerChunk: 1 + r.Intn(2)}
	if r.Chance(1, 4) {
		sc.Flags |= 2
	}
	n := 4 + r.Intn(3)
	for i := 0; i < n; i++ {
		ph := c01SpillPhase{Chunks: sc.Capacity - 1, Outage: r.PickInt([]int{0, 0, 0, 1, 2})}
		if r.Chance(1, 4) {
			ph.Chunks = 1 + r.Intn(sc.Capacity-1)
		}
		switch r.Intn(6) {
		case 0:
			ph.Restart = 1
		case 1:
			ph.Restart = 2
		}
		sc.Phases = append(sc.Phases, ph)
	}
	return sc
}

func c01GenSpillCases(g *Gen) {
	n := g.Pick(5, 80)
	for i := 0; i < n; i++ {
		g.Case(4, nil, c01DrawSpillCase(g.R).zargs())
		g.Count("spill-history")
	}
}
