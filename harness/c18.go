package main

// C18 — shutdown always completes in bounded time.
//
// The REAL agent (production wiring: e2eAgent.Start, real forwarder) with every timeout of defs/params.go scaled to
// milliseconds is brought into a phase (idle, waiting for an ACK, sending, re-sending leftovers, connecting, retry
// wait, full window, consumer that never finishes) against an upstream in a given state (healthy, refusing,
// resetting, silent, not reading = blocked mid-write, black hole); then the wall time from the stop request to the
// return of shutdownInputs()+Shutdown() is measured.
//
// ORACLE (independent of Coq): elapsed <= Bs(scaled parameters, scenario) + slack, where Bs is the bound of the
// scenario (0 when every wait on its path has a stop edge; Destroy's deadline for the consumer that never
// finishes), and the queue directory holds every record the agent accepted that the upstream did not acknowledge.
// CORRESPONDENCE: the scenario (phase, parameter values, load) is the case line; the Coq wait graph
// (Model/Shutdown.v) prints the scenario bound, B(parameters, load), the client's own bound and the
// classification; Go computes the same with its own arithmetic (c18Bounds).

import (
	"fmt"
	"net"
	"os"
	"strings"
	"sync"
	"syscall"
	"time"

	"github.com/relex/gotils/channels"
	"github.com/relex/gotils/logger"
	"github.com/relex/slog-agent/base"
	"github.com/relex/slog-agent/run"
)

func init() {
	register(&Prop{ID: "C18", Gen: c18Gen, Run: c18Run})
}

// phases of the model (Model/Shutdown.v phase_of)
const (
	c18Idle = iota
	c18WaitAck
	c18Sending
	c18SendingLate
	c18Connecting
	c18ConnectingLate
	c18Recovery
	c18RetryWait
	c18Stuck
	c18HandOver // sendChunk's select { ackerChan <- chunk | inputClosed | ackerEnded } with a full ackerChan
)

// upstream states
const (
	upHealthy    = iota // fake Fluentd, ACKs everything
	upSilent            // reads everything, never answers
	upNotReading        // accepts, never reads (tiny receive buffer): writes block mid-chunk
	upResetting         // accepts, resets the connection as soon as data arrives
	upRefusing          // closed port: connection refused
	upBlackhole         // SYNs are not answered (listen backlog full): connect hangs
	upResetThenNotReading // first connection: swallow data then reset; afterwards never read (leftovers are re-sent into a wall)
)

var c18UpNames = []string{"healthy", "silent", "not-reading", "resetting", "refusing", "blackhole", "reset-then-not-reading"}
var c18PhaseNames = []string{"idle", "wait-ack", "sending", "sending-late", "connecting", "connecting-late", "recovery", "retry-wait", "stuck-consumer", "hand-over"}

type c18Scenario struct {
	Name       string
	Phase      int // model phase
	Up         int
	BigLoad    bool // megabytes of records (needed to fill socket buffers)
	ManyChunks bool // many small chunks: the output channel fills up ("full window")
	NoDir      bool
	SettleMs   int // time to let the agent reach the phase after the trigger
	AckWindow  int // defs.ForwarderMaxPendingChunksForAck (0 = large)
	TAckMs     int // ACK timeout of this scenario (0 = default)
}

var c18Scenarios = []c18Scenario{
	{Name: "idle/healthy", Phase: c18Idle, Up: upHealthy},
	{Name: "wait-ack/silent", Phase: c18WaitAck, Up: upSilent, SettleMs: 120},
	{Name: "sending/not-reading", Phase: c18Sending, Up: upNotReading, BigLoad: true, SettleMs: 250},
	{Name: "connecting/blackhole", Phase: c18Connecting, Up: upBlackhole, SettleMs: 120},
	{Name: "retry-wait/refusing", Phase: c18RetryWait, Up: upRefusing, SettleMs: 120},
	{Name: "retry-wait/resetting", Phase: c18RetryWait, Up: upResetting, SettleMs: 150},
	{Name: "full-window/refusing", Phase: c18RetryWait, Up: upRefusing, ManyChunks: true, SettleMs: 150},
	{Name: "full-window/blackhole", Phase: c18Connecting, Up: upBlackhole, ManyChunks: true, SettleMs: 150},
	{Name: "recovery/reset-then-not-reading", Phase: c18Recovery, Up: upResetThenNotReading, BigLoad: true, SettleMs: 300},
	{Name: "idle/silent-no-data", Phase: c18Idle, Up: upSilent, SettleMs: 50},
	{Name: "stuck-consumer", Phase: c18Stuck, Up: upHealthy, SettleMs: 50},
	// ACK window full: the upstream reads everything and never answers; AckWindow chunks wait in ackerChan, one more is
	// with the acknowledger, the next one has been written and the sender sits in the hand-over select of sendChunk.
	// (a) the stop arrives in that state; (b) the ACK timeout ends the acknowledger first (ackerEnded branch), the stop
	// comes during the retry wait that follows
	{Name: "hand-over/silent", Phase: c18HandOver, Up: upSilent, ManyChunks: true, AckWindow: 2, SettleMs: 200},
	{Name: "hand-over/silent-ack-timeout", Phase: c18RetryWait, Up: upSilent, ManyChunks: true, AckWindow: 2, TAckMs: 250, SettleMs: 500},
}

// ---------- timeouts (milliseconds) ----------

type c18Params struct {
	TIn, TCh, TBs, TConn, TSend, TAck, TAckStop, TRetry int64
}

func c18DefaultParams() c18Params {
	// everything the shutdown must NOT wait for is well above the slack; Destroy's deadline (TBs + TCh) is short
	// enough to be waited for once (stuck consumer)
	return c18Params{TIn: 25, TCh: 1500, TBs: 2000, TConn: 3000, TSend: 4000, TAck: 5000, TAckStop: 6000, TRetry: 3000}
}

const c18SlackMs = 1200 // see design_notes/C18.md: > 5x the largest stop time observed for a 0-tick scenario under a load of 150 on 16 cores (165 ms)

type c18Shape struct {
	NConn, NFlush, NPipe, NOut, NLeft, NWin int64
	HasDir, WorkerLive                      bool
	LateAbort                               bool // code variant: a session that becomes active after the stop signal is aborted at once (repair caaa160)
}

// c18Bounds: Go's own evaluation of the wait graph's bounds (independent of the Coq text):
// scenario bound, B, client bound; ok=false means "never" (not guaranteed).
func c18Bounds(ph int, p c18Params, sh c18Shape) (bs int64, bsOK bool, b int64, cl int64, clOK bool) {
	min := func(a, b int64) int64 {
		if a < b {
			return a
		}
		return b
	}
	switch ph {
	case c18Idle, c18WaitAck, c18Sending, c18Connecting, c18Recovery, c18RetryWait, c18HandOver:
		cl, clOK = 0, true
	case c18SendingLate:
		cl, clOK = p.TSend, true
		if sh.LateAbort {
			cl = 0
		}
	case c18ConnectingLate:
		cl, clOK = sh.NLeft*p.TSend, true
		if sh.LateAbort {
			cl = 0
		}
	default:
		cl, clOK = 0, false
	}
	runTimeout := p.TBs + p.TCh
	pre := int64(0)
	if !sh.HasDir {
		runTimeout = 2 * p.TCh
		pre = p.TBs
	}
	var bin int64
	if sh.NConn > 0 && !sh.WorkerLive {
		bin = sh.NFlush * p.TCh
	}
	destroy := pre + runTimeout
	if clOK {
		destroy = pre + min(runTimeout, cl)
	}
	var orch, borch int64
	if sh.NPipe > 0 {
		orch = sh.NOut * destroy
		borch = sh.NOut * (pre + runTimeout)
	}
	return bin + orch, true, bin + borch, cl, clOK
}

func c18OutText(bs int64, bsOK bool, b int64, cl int64, clOK bool) string {
	opt := func(v int64, ok bool) string {
		if !ok {
			return "inf"
		}
		return fmt.Sprint(v)
	}
	class := "deadline"
	if !bsOK {
		class = "never"
	} else if bs == 0 {
		class = "instant"
	}
	return fmt.Sprintf("ok:bs=%s;b=%d;cl=%s;class=%s", opt(bs, bsOK), b, opt(cl, clOK), class)
}

// ---------- upstreams ----------

// c18Upstream is a raw TCP upstream with a behaviour per connection attempt.
type c18Upstream struct {
	ln       net.Listener
	mu       sync.Mutex
	modes    []int // per attempt; the last one repeats
	attempts int
	conns    []net.Conn
	received int64
	closed   bool
	wg       sync.WaitGroup
}

const (
	srvDiscard   = iota // read and discard forever, never answer
	srvNeverRead        // hold the connection, never read
	srvResetOnData      // reset when the first data arrives
	srvSwallowThenReset // read ~6 MB, then reset
)

func c18NewUpstream(modes []int, smallRcvBuf bool) (*c18Upstream, error) {
	ln, err := net.Listen("tcp", "127.0.0.1:0")
	if err != nil {
		return nil, err
	}
	if smallRcvBuf {
		if rc, e := ln.(*net.TCPListener).SyscallConn(); e == nil {
			_ = rc.Control(func(fd uintptr) { _ = syscall.SetsockoptInt(int(fd), syscall.SOL_SOCKET, syscall.SO_RCVBUF, 4096) })
		}
	}
	u := &c18Upstream{ln: ln, modes: modes}
	u.wg.Add(1)
	go u.acceptLoop()
	return u, nil
}

func (u *c18Upstream) Addr() string { return u.ln.Addr().String() }

func (u *c18Upstream) Attempts() int {
	u.mu.Lock()
	defer u.mu.Unlock()
	return u.attempts
}

func (u *c18Upstream) Received() int64 {
	u.mu.Lock()
	defer u.mu.Unlock()
	return u.received
}

func (u *c18Upstream) acceptLoop() {
	defer u.wg.Done()
	for {
		c, err := u.ln.Accept()
		if err != nil {
			return
		}
		u.mu.Lock()
		if u.closed {
			u.mu.Unlock()
			c.Close()
			return
		}
		mode := u.modes[len(u.modes)-1]
		if u.attempts < len(u.modes) {
			mode = u.modes[u.attempts]
		}
		u.attempts++
		u.conns = append(u.conns, c)
		u.mu.Unlock()
		u.wg.Add(1)
		go u.serve(c, mode)
	}
}

func (u *c18Upstream) serve(c net.Conn, mode int) {
	defer u.wg.Done()
	buf := make([]byte, 64*1024)
	switch mode {
	case srvNeverRead:
		return // the connection stays open (closed by Close)
	case srvResetOnData:
		_, _ = c.Read(buf[:1])
		ffReset(c)
		return
	}
	var got int64
	for {
		n, err := c.Read(buf)
		got += int64(n)
		u.mu.Lock()
		u.received += int64(n)
		u.mu.Unlock()
		if err != nil {
			return
		}
		if mode == srvSwallowThenReset && got > 6<<20 {
			ffReset(c)
			return
		}
	}
}

func (u *c18Upstream) Close() {
	u.mu.Lock()
	u.closed = true
	conns := u.conns
	u.mu.Unlock()
	u.ln.Close()
	for _, c := range conns {
		c.Close()
	}
	u.wg.Wait()
}

// c18Blackhole: a listening socket whose backlog is full and never accepted from: further SYNs get no answer.
type c18Blackhole struct {
	fd      int
	addr    string
	fillers []net.Conn
}

func c18NewBlackhole() (*c18Blackhole, error) {
	fd, err := syscall.Socket(syscall.AF_INET, syscall.SOCK_STREAM, 0)
	if err != nil {
		return nil, err
	}
	sa := &syscall.SockaddrInet4{Port: 0, Addr: [4]byte{127, 0, 0, 1}}
	if err := syscall.Bind(fd, sa); err != nil {
		syscall.Close(fd)
		return nil, err
	}
	if err := syscall.Listen(fd, 0); err != nil {
		syscall.Close(fd)
		return nil, err
	}
	lsa, err := syscall.Getsockname(fd)
	if err != nil {
		syscall.Close(fd)
		return nil, err
	}
	port := lsa.(*syscall.SockaddrInet4).Port
	b := &c18Blackhole{fd: fd, addr: fmt.Sprintf("127.0.0.1:%d", port)}
	// fill the accept queue: these connect, the following ones hang
	for i := 0; i < 4; i++ {
		c, derr := net.DialTimeout("tcp", b.addr, 150*time.Millisecond)
		if derr != nil {
			break
		}
		b.fillers = append(b.fillers, c)
	}
	return b, nil
}

// Hangs reports whether a new connection attempt indeed gets no answer.
func (b *c18Blackhole) Hangs() bool {
	c, err := net.DialTimeout("tcp", b.addr, 120*time.Millisecond)
	if err == nil {
		b.fillers = append(b.fillers, c)
		return false
	}
	ne, ok := err.(net.Error)
	return ok && ne.Timeout()
}

func (b *c18Blackhole) Close() {
	for _, c := range b.fillers {
		c.Close()
	}
	syscall.Close(b.fd)
}

func c18ClosedPort() string {
	ln, err := net.Listen("tcp", "127.0.0.1:0")
	if err != nil {
		return "127.0.0.1:1"
	}
	addr := ln.Addr().String()
	ln.Close()
	return addr
}

// ---------- a consumer that never finishes ----------

type c18StuckConsumer struct {
	args    base.ChunkConsumerArgs
	release chan struct{}
	stopped *channels.SignalAwaitable
}

func (c *c18StuckConsumer) Start() {
	go func() {
		<-c.release
		c.args.OnFinished()
		c.stopped.Signal()
	}()
}

func (c *c18StuckConsumer) Stopped() channels.Awaitable { return c.stopped }

// ---------- running one scenario ----------

type c18Result struct {
	ElapsedMs  int64
	Fails      []Fail
	Shape      c18Shape
	StopErr    error
	SettledMs  int64
	Note       string
}

func c18RunScenario(seed uint64, idx int) (*c18Scenario, c18Params, *c18Result) {
	sc := c18Scenarios[idx%len(c18Scenarios)]
	p := c18DefaultParams()
	if sc.TAckMs > 0 {
		p.TAck = int64(sc.TAckMs)
	}
	res := &c18Result{}
	fail := func(sig, format string, a ...interface{}) {
		res.Fails = append(res.Fails, Fail{Sig: sig, Desc: sc.Name + ": " + fmt.Sprintf(format, a...)})
	}
	r := c18Rng(seed, idx)
	dir, err := os.MkdirTemp("", "c18-")
	if err != nil {
		fail("c18:harness:tempdir", "%v", err)
		return &sc, p, res
	}
	defer os.RemoveAll(dir)
	ep := e2eDefaultParams()
	ep.InputFlushMs, ep.ChannelTimeoutMs, ep.BufferShutdownMs = int(p.TIn), int(p.TCh), int(p.TBs)
	ep.ConnTimeoutMs, ep.SendTimeoutMs, ep.AckTimeoutMs, ep.AckerStopMs, ep.RetryMs = int(p.TConn), int(p.TSend), int(p.TAck), int(p.TAckStop), int(p.TRetry)
	ep.PingMs = 20000
	ep.FlushIntervalMs = 30
	ep.MemLen, ep.QueueLen = 8, 256
	ep.AckPending = 64
	ep.ChunkMaxRecords = -1
	ep.ChunkMaxBytes = 1 << 20
	ep.MaxMessageBytes = 4096
	ep.MaxRecordBytes = 4096 + 256
	if sc.ManyChunks {
		ep.ChunkMaxRecords = 2
		ep.MemLen = 4
	}
	if sc.AckWindow > 0 {
		ep.AckPending = sc.AckWindow
		ep.MemLen = 8
	}
	if sc.Up == upResetThenNotReading {
		ep.RetryMs = 200 // the retry wait is not what this scenario is about: get to the second connection quickly
	}
	e2eApplyParams(ep)
	tr := newE2ETrace()
	// upstream
	var addr string
	var fsrv *fakeFluentd
	var usrv *c18Upstream
	var hole *c18Blackhole
	switch sc.Up {
	case upHealthy:
		fsrv, err = newFakeFluentd("out1", tr)
		if err == nil {
			defer fsrv.Close()
			addr = fsrv.Addr()
		}
	case upSilent:
		usrv, err = c18NewUpstream([]int{srvDiscard}, false)
	case upNotReading:
		usrv, err = c18NewUpstream([]int{srvNeverRead}, true)
	case upResetting:
		usrv, err = c18NewUpstream([]int{srvResetOnData}, false)
	case upResetThenNotReading:
		usrv, err = c18NewUpstream([]int{srvSwallowThenReset, srvNeverRead}, true)
	case upRefusing:
		addr = c18ClosedPort()
	case upBlackhole:
		hole, err = c18NewBlackhole()
		if err == nil {
			defer hole.Close()
			addr = hole.addr
			if !hole.Hangs() {
				res.Note = "blackhole-not-available"
			}
		}
	}
	if err != nil {
		fail("c18:harness:upstream", "%v", err)
		return &sc, p, res
	}
	if usrv != nil {
		defer usrv.Close()
		addr = usrv.Addr()
	}
	cfg := e2eConfig{Dir: dir, Keys: []string{"app"}, Outputs: []e2eOutput{{Name: "out1", Addr: addr, Mode: "Forward", MaxBufSize: "1GB"}},
		StopTimeout: 20 * time.Second}
	ag, err := e2eNewAgent(cfg, tr)
	if err != nil {
		fail("c18:harness:agent", "%v", err)
		return &sc, p, res
	}
	var stuck []*c18StuckConsumer
	var stuckMu sync.Mutex
	if sc.Phase == c18Stuck {
		err = c18StartWithOverride(ag, func(_ logger.Logger, _ string, _ base.ChunkDecoder, args base.ChunkConsumerArgs) base.ChunkConsumer {
			c := &c18StuckConsumer{args: args, release: make(chan struct{}), stopped: channels.NewSignalAwaitable()}
			stuckMu.Lock()
			stuck = append(stuck, c)
			stuckMu.Unlock()
			return c
		})
	} else {
		err = ag.Start()
	}
	if err != nil {
		fail("c18:harness:start", "%v", err)
		return &sc, p, res
	}
	defer func() {
		stuckMu.Lock()
		for _, c := range stuck {
			close(c.release)
		}
		stuckMu.Unlock()
	}()
	// ---- load ----
	apps := []string{"ka", "kb"}
	if sc.BigLoad {
		apps = []string{"ka"}
	}
	nrec := 12
	payload := 20
	if sc.BigLoad {
		nrec, payload = 2600, 3900 // ~10 MB: more than the socket buffers of a connection whose peer does not read
	}
	if sc.ManyChunks {
		nrec = 60
	}
	if sc.Name == "idle/silent-no-data" {
		nrec = 0
	}
	var recs []e2eRecord
	want := map[e2eStamp]bool{}
	pad := make([]byte, payload)
	for i := range pad {
		pad[i] = 'x'
	}
	for i := 0; i < nrec; i++ {
		sp := e2eRecordSpec{Class: rcGood, Pri: 8 + i%8, App: apps[i%len(apps)], Source: "x1", Host: "h1", Payload: string(pad), TimeIdx: i}
		rec := e2eMakeRecord(e2eStamp{Conn: 0, Seq: i}, sp)
		recs = append(recs, rec)
		want[rec.Stamp] = true
	}
	cl0, err := e2eDial(ag.Addr(), 0, tr)
	if err != nil {
		fail("c18:harness:dial", "%v", err)
		return &sc, p, res
	}
	cl1, err := e2eDial(ag.Addr(), 1, tr) // a second, idle connection (with half a record pending)
	if err == nil {
		_ = cl1.SendRaw([]byte("<14>1 2024-03-01T12:00:00.000Z h1 ka 4242 x1 - k=1 s=0 unfinished"))
	}
	if len(recs) > 0 {
		if err := cl0.Send(recs, []int{32 * 1024}); err != nil {
			fail("c18:harness:send", "%v", err)
		}
		if !ag.WaitInputSeen(len(recs), 30*time.Second) {
			res.Note = "not-staged:input-not-read"
		}
	}
	// ---- reach the phase ----
	t0 := time.Now()
	switch {
	case sc.Phase == c18Idle && sc.Up == upHealthy:
		if !fsrv.WaitAckedStamps(want, 20*time.Second) || !ag.WaitIdle(15*time.Second) {
			res.Note = "not-staged:not-idle"
		}
	case sc.Up == upResetThenNotReading:
		deadline := time.Now().Add(10 * time.Second)
		for usrv.Attempts() < 2 && time.Now().Before(deadline) {
			time.Sleep(5 * time.Millisecond)
		}
		if usrv.Attempts() < 2 {
			res.Note = "not-staged:no-second-connection"
		}
	case usrv != nil && nrec > 0:
		deadline := time.Now().Add(10 * time.Second)
		for usrv.Attempts() < 1 && time.Now().Before(deadline) {
			time.Sleep(5 * time.Millisecond)
		}
	}
	time.Sleep(time.Duration(sc.SettleMs+r.Intn(40)) * time.Millisecond)
	res.SettledMs = time.Since(t0).Milliseconds()
	// ---- stop ----
	res.Shape = c18Shape{NConn: 2, NFlush: 4, NPipe: int64(len(apps)), NOut: 1, NLeft: 8, NWin: int64(ep.MemLen), HasDir: true, WorkerLive: true, LateAbort: true}
	if nrec == 0 {
		res.Shape.NPipe = 0
	}
	if err := ag.Stop(); err != nil {
		res.StopErr = err
		res.ElapsedMs = cfg.StopTimeout.Milliseconds()
		fail("c18:stop:did-not-complete", "shutdownInputs()+Shutdown() did not return within %s", cfg.StopTimeout)
		return &sc, p, res
	}
	res.ElapsedMs = ag.StopDur.Milliseconds()
	cl0.Close(false)
	if cl1 != nil {
		cl1.Close(false)
	}
	// ---- oracle ----
	bs, bsOK, _, _, _ := c18Bounds(sc.Phase, p, res.Shape)
	if bsOK && res.ElapsedMs > bs+c18SlackMs {
		fail("c18:stop:too-slow", "stop took %d ms; the bound of this scenario is %d ms (+ %d ms slack): a wait on the shutdown path was not woken by the stop signal",
			res.ElapsedMs, bs, c18SlackMs)
	}
	if sc.Phase != c18Stuck && !strings.HasPrefix(res.Note, "not-staged") {
		// every accepted record that the upstream did not acknowledge must be in a queue file
		have := map[e2eStamp]bool{}
		if fsrv != nil {
			for _, ch := range fsrv.Chunks() {
				if ch.Acked {
					for _, s := range ch.Stamps() {
						have[s] = true
					}
				}
			}
		}
		for _, qf := range ag.QueueFiles("out1") {
			if qf.Err != "" {
				fail("c18:disk:unreadable-chunk", "queue file %s/%s: %s", qf.Dir, qf.ChunkID, qf.Err)
				continue
			}
			for _, s := range qf.stamps() {
				have[s] = true
			}
		}
		missing := 0
		var first e2eStamp
		for s := range want {
			if !have[s] {
				if missing == 0 || s.Seq < first.Seq {
					first = s
				}
				missing++
			}
		}
		if missing > 0 {
			fail("c18:disk:chunk-only-in-memory", "%d accepted records are neither acknowledged by the upstream nor in a queue file after the stop (first %s)", missing, first)
		}
	}
	return &sc, p, res
}

func c18Rng(seed uint64, idx int) *Rng { return NewRng(seed*7919 + uint64(idx)*104729 + 3) }

// c18StartWithOverride is e2eAgent.Start with a consumer override.
func c18StartWithOverride(a *e2eAgent, ov base.ChunkConsumerOverrideCreator) error {
	loader, err := run.NewLoaderFromConfigFile(a.configPath, "slogagent_")
	if err != nil {
		return err
	}
	a.gens = append(a.gens, &e2eGeneration{loader: loader})
	loader.PipelineArgs.NewConsumerOverride = ov
	a.tr.Log(e2eEvent{Kind: evAgentStart, Gen: len(a.gens)})
	a.orch = loader.StartOrchestrator(logger.Root())
	addrs, shutdown := loader.LaunchInputs(a.orch)
	a.addr = addrs[0]
	a.shutdownIn = shutdown
	a.running = true
	return nil
}

func c18Z(seed uint64, idx int, sc *c18Scenario, p c18Params, sh c18Shape) []int64 {
	return []int64{int64(seed), int64(idx), int64(sc.Phase), p.TIn, p.TCh, p.TBs, p.TConn, p.TSend, p.TAck, p.TAckStop, p.TRetry,
		sh.NConn, sh.NFlush, sh.NPipe, sh.NOut, sh.NLeft, sh.NWin, b2i(sh.HasDir), b2i(sh.WorkerLive), b2i(sh.LateAbort)}
}

var c18Cache = map[string]*c18Result{}
var c18Times = map[string][]int64{}

func c18Run(c *Case) (string, []Fail) {
	if c.Kind == 2 {
		return c18RunBacklogCase(c) // backlog at the stop: c18_backlog.go
	}
	if c.Kind == 3 || c.Kind == 4 {
		return c18RunStopWaitCase(c) // queue full at the stop / connection registering after the stop: c18_stopwait.go
	}
	if c.Kind != 1 || len(c.Z) < 20 {
		return "badcase", nil
	}
	p := c18Params{c.Z[3], c.Z[4], c.Z[5], c.Z[6], c.Z[7], c.Z[8], c.Z[9], c.Z[10]}
	sh := c18Shape{c.Z[11], c.Z[12], c.Z[13], c.Z[14], c.Z[15], c.Z[16], c.Z[17] != 0, c.Z[18] != 0, c.Z[19] != 0}
	out := c18OutText(c18Bounds(int(c.Z[2]), p, sh))
	if c.Z[0] < 0 {
		// a pure bound case (no scenario run): parameter sweep of the correspondence
		return out, nil
	}
	if r, ok := c18Cache[c.Line()]; ok {
		return out, r.Fails
	}
	if c.Z[1] >= 1000 {
		_, res := c18RunLateScenario(uint64(c.Z[0]), int(c.Z[1]))
		return out, res.Fails
	}
	_, _, res := c18RunScenario(uint64(c.Z[0]), int(c.Z[1]))
	return out, res.Fails
}

func c18Gen(g *Gen) {
	// ---- (a) the scenarios on the real agent ----
	rounds := g.Pick(1, 6)
	for round := 0; round < rounds; round++ {
		for i := range c18Scenarios {
			if only := os.Getenv("C18_ONLY"); only != "" && only != fmt.Sprint(i) {
				continue
			}
			idx := round*len(c18Scenarios) + i
			sc, p, res := c18RunScenario(g.Seed, idx)
			z := c18Z(g.Seed, idx, sc, p, res.Shape)
			cs := &Case{Kind: 1, Z: z}
			c18Cache[cs.Line()] = res
			g.Case(1, nil, z)
			g.Count("scenario-" + sc.Name)
			c18Times[sc.Name] = append(c18Times[sc.Name], res.ElapsedMs)
			if res.Note != "" {
				g.Count(res.Note)
			}
			if os.Getenv("C18_VERBOSE") != "" {
				fmt.Fprintf(os.Stderr, "c18 %-34s elapsed %5d ms (settled %d ms) fails %d %s\n", sc.Name, res.ElapsedMs, res.SettledMs, len(res.Fails), res.Note)
			}
		}
	}
	// ---- the late session (see c18_late.go) ----
	if os.Getenv("C18_ONLY") == "" || os.Getenv("C18_ONLY") == "late" {
		for round := 0; round < rounds; round++ {
			idx := 1000 + round
			p, res := c18RunLateScenario(g.Seed, idx)
			sc := &c18Scenario{Name: "late-session", Phase: c18ConnectingLate}
			z := c18Z(g.Seed, idx, sc, p, res.Shape)
			cs := &Case{Kind: 1, Z: z}
			c18Cache[cs.Line()] = res
			g.Case(1, nil, z)
			g.Count("scenario-late-session")
			if res.Note != "" {
				g.Count(res.Note)
			}
			c18Times[sc.Name] = append(c18Times[sc.Name], res.ElapsedMs)
			if os.Getenv("C18_VERBOSE") != "" {
				fmt.Fprintf(os.Stderr, "c18 %-34s elapsed %5d ms fails %d %s\n", sc.Name, res.ElapsedMs, len(res.Fails), res.Note)
			}
		}
	}
	// ---- backlog at the stop request (see c18_backlog.go) ----
	if os.Getenv("C18_ONLY") == "" || os.Getenv("C18_ONLY") == "backlog" {
		c18GenBacklog(g)
	}
	// ---- waits of the shutdown path: full queue at the stop, late-registering connection (see c18_stopwait.go) ----
	if o := os.Getenv("C18_ONLY"); o == "" || o == "qfull" || o == "lsnr" {
		c18GenStopWaits(g)
	}
	for name, ts := range c18Times {
		var max int64
		for _, t := range ts {
			if t > max {
				max = t
			}
		}
		g.dist["max-stop-ms "+name] = int(max)
	}
	// ---- (b) parameter / load sweep of the bound computation (no agent run: z[0] = -1) ----
	r := g.R
	n := g.Pick(400, 6000)
	for i := 0; i < n; i++ {
		vals := []int64{0, 1, 5, 60, 120, 700, 1500, 90000}
		pick := func() int64 { return vals[r.Intn(len(vals))] }
		p := c18Params{pick(), pick(), pick(), pick(), pick(), pick(), pick(), pick()}
		sh := c18Shape{int64(r.Intn(4)), int64(r.Intn(5)), int64(r.Intn(4)), int64(r.Intn(3)), int64(r.Intn(6)), int64(r.Intn(9)), r.Bool(), r.Bool(), r.Bool()}
		ph := r.Intn(10)
		sc := &c18Scenario{Phase: ph}
		z := c18Z(0, i, sc, p, sh)
		z[0] = -1
		g.Case(1, nil, z)
		g.Count("sweep-phase-" + c18PhaseNames[ph])
	}
}
