package main

// C03: hybrid buffer conserves chunks in FIFO order within disk and memory bounds.
// Implementation under test: hybridbuffer.Config.NewBufferer (bufferer, outputFeeder, chunkManager,
// chunkOperator, util.WriteFileAt/ReadFileAt/UnlinkFileAt) on a temporary directory, with the queue and
// window capacities (defs.BufferMaxNumChunksInQueue / InMemory) set small.
// The case is an operation list; the canonical output is the final projection (directory contents,
// chunks received by the consumer, every buffer metric, where the feeder rests, hash of the per-step
// observations).  The oracle below is independent of the Coq model.

import (
	"fmt"
	"sort"
	"strings"
)

func c03Ops(z []int64) ([]bufOp, bool) {
	if len(z) < 1 || (len(z)-1)%4 != 0 {
		return nil, false
	}
	var ops []bufOp
	for i := 1; i+3 < len(z); i += 4 {
		ops = append(ops, bufOp{z[i], z[i+1], z[i+2], z[i+3]})
	}
	return ops, true
}

var c03Expect = map[string]string{}

func c03Run(c *Case) (out string, fails []Fail) {
	if c.Kind == 1 {
		return c03StartRun(c) // restart on a backlog with immediate input (c03_startup.go)
	}
	ops, ok := c03Ops(c.Z)
	if !ok || c.Kind != 0 {
		return "badcase", nil
	}
	w := newC03World(c.S)
	defer w.cleanup()
	defer func() {
		if r := recover(); r != nil {
			out = "panic"
			fails = append(w.fails, Fail{"c03:panic", fmt.Sprintf("panic: %v", r)})
		}
	}()
	w.dirsize = c.Z[0]
	for i, op := range ops {
		if !w.step(op) {
			return fmt.Sprintf("reject:%d", i), w.fails
		}
	}
	out = w.output()
	w.finishGen()
	c03Oracle(w)
	if exp, ok := c03Expect[c.Line()]; ok && exp != out {
		w.fail("c03:nondeterministic", "two executions of the same operation list gave different observations: "+exp+" / "+out)
	}
	return out, w.fails
}

// ---------- the property's own oracle (Go side, independent of the model) ----------

func c03Oracle(w *c03World) {
	for gi, g := range w.gens {
		orig := map[string][]byte{} // what the bytes of each chunk of this generation must be
		isDir := map[string]bool{}
		var order []string // recovered in id order, then accepted in acceptance order
		for _, id := range g.Recovered {
			b := g.DirAtStart[id]
			if b == nil {
				isDir[id] = true
			}
			orig[id] = b
			order = append(order, id)
		}
		if !sort.StringsAreSorted(g.Recovered) {
			w.fail("c03:harness", "recovered list not sorted")
		}
		for _, c := range g.Accepted {
			orig[c.ID] = c.Data
			order = append(order, c.ID)
		}
		// FIFO and byte identity of everything the consumer received
		pos := 0
		for _, t := range g.Taken {
			found := false
			for pos < len(order) {
				if order[pos] == t.ID {
					found = true
					pos++
					break
				}
				pos++
			}
			if !found {
				w.fail("c03:fifo-order", fmt.Sprintf("generation %d: consumer received %s out of order (expected order %v, received %v)", gi+1, t.ID, order, c03IDs(g.Taken)))
				break
			}
			if len(t.Data) == 0 {
				w.fail(w.emptySig, fmt.Sprintf("generation %d: consumer received an EMPTY chunk under the name %s (file at start-up: %d bytes): a zero-length chunk must be dropped and counted, not forwarded", gi+1, t.ID, len(g.DirAtStart[t.ID])))
			}
			if isDir[t.ID] || string(orig[t.ID]) != string(t.Data) {
				w.fail("c03:fifo-bytes", fmt.Sprintf("generation %d: consumer received chunk %s with bytes %x, original %x", gi+1, t.ID, t.Data, orig[t.ID]))
			}
		}
		if !g.Completed || g.DirAtEnd == nil {
			continue
		}
		// conservation after Destroy
		confirmed := map[string]int{}
		for _, id := range g.Confirmed {
			confirmed[id]++
		}
		lost, kept := 0, 0
		var lostIDs []string
		for _, id := range order {
			end, present := g.DirAtEnd[id]
			identical := present && ((end == nil && isDir[id]) || (end != nil && !isDir[id] && string(end) == string(orig[id])))
			switch {
			case confirmed[id] > 1:
				w.fail("c03:confirmed-twice", "chunk "+id+" confirmed twice")
			case confirmed[id] == 1:
				if present {
					w.fail("c03:confirmed-file-present", fmt.Sprintf("generation %d: chunk %s was confirmed by the consumer but its file is still in the queue directory", gi+1, id))
				}
			case identical:
				kept++
			default:
				lost++
				lostIDs = append(lostIDs, id)
			}
		}
		dropped := int(g.MetAtEnd[8])
		if dropped < lost {
			w.fail("c03:lost-uncounted", fmt.Sprintf("generation %d: %d chunk(s) %v are neither confirmed nor on disk after Destroy, but only %d counted as dropped (handed back: %v, quota %d, dir usable %t)",
				gi+1, lost, lostIDs, dropped, g.HandedBack, g.MaxB, g.DirOK))
		}
		_ = kept // (a counter that counts more than was lost, or consumed_chunks_total, are metric questions: C19)
	}
}

func c03IDs(cs []c03Chunk) []string {
	var out []string
	for _, c := range cs {
		out = append(out, c.ID)
	}
	return out
}

// ---------- generator ----------

type c03Builder struct {
	g    *Gen
	r    *Rng
	w    *c03World
	ops  []bufOp
	pool [][]byte
	idx  map[string]int64
	next int
}

func newC03Builder(g *Gen) *c03Builder {
	b := &c03Builder{g: g, r: g.R, idx: map[string]int64{}}
	b.w = newC03World(nil)
	b.next = 100 + g.R.Intn(800)
	return b
}

func (b *c03Builder) p(s []byte) int64 {
	k := string(s)
	if i, ok := b.idx[k]; ok {
		return i
	}
	b.pool = append(b.pool, append([]byte{}, s...))
	b.idx[k] = int64(len(b.pool) - 1)
	b.w.pool = b.pool
	return b.idx[k]
}

func (b *c03Builder) try(op bufOp) bool {
	if b.w.step(op) {
		b.ops = append(b.ops, op)
		return true
	}
	return false
}

func (b *c03Builder) data() []byte {
	r := b.r
	var n int
	switch r.Intn(8) {
	case 0:
		n = 0
	case 1:
		n = 1
	case 2:
		n = r.PickInt([]int{9, 10, 11, 19, 20, 21})
	default:
		n = r.Range(2, 14)
	}
	d := r.Bytes(n, []byte("abcdefghijklmnopqrstuvwxyz0123456789\x00\xff|,;:"))
	return d
}

func (b *c03Builder) newID() string {
	b.next += 1 + b.r.Intn(3)
	return fmt.Sprintf("c%05d.ff", b.next)
}

func (b *c03Builder) accept(ws int64) bool {
	id := b.newID()
	if b.r.Chance(1, 12) {
		// an ID that sorts before the earlier ones (order of acceptance, not of IDs, must be kept in memory)
		id = fmt.Sprintf("b%05d.ff", 99999-b.next)
	}
	return b.try(bufOp{opAccept, b.p([]byte(id)), b.p(b.data()), ws})
}

func (b *c03Builder) acceptSized(n int) bool {
	id := b.newID()
	d := b.r.Bytes(n, []byte("abcdefghijklmnopqrstuvwxyz"))
	return b.try(bufOp{opAccept, b.p([]byte(id)), b.p(d), 0})
}

// plant a file / directory while no bufferer runs
func (b *c03Builder) plant() {
	r := b.r
	var name string
	switch r.Intn(6) {
	case 0, 1:
		name = fmt.Sprintf("a%05d.ff", r.Intn(1000)) // foreign chunk sorting before ours
	case 2:
		name = fmt.Sprintf("z%05d.ff", r.Intn(1000)) // ... after ours
	case 3:
		name = fmt.Sprintf("junk%03d", r.Intn(100)) // not a chunk name
	case 4:
		name = fmt.Sprintf("c%05d.ff.tmp", b.next+r.Intn(8)) // temporary name of a chunk to come
	default:
		name = fmt.Sprintf("m%05d.ff", r.Intn(1000))
	}
	switch r.Intn(6) {
	case 0:
		b.try(bufOp{opTamper, b.p([]byte(name)), 2, 0}) // sub-directory
		b.g.Count("plant-dir")
	case 1:
		b.try(bufOp{opTamper, b.p([]byte(name)), 1, b.p([]byte{})}) // zero-length file
		b.g.Count("plant-empty")
	case 2:
		b.try(bufOp{opTamper, b.p([]byte(name)), 0, 0}) // remove
	default:
		b.try(bufOp{opTamper, b.p([]byte(name)), 1, b.p(b.data())})
		b.g.Count("plant-file")
	}
}

func (b *c03Builder) params() (Q, M int, maxb int64) {
	r := b.r
	Q = r.PickInt([]int{1, 2, 3, 4, 6, 6, 8})
	M = r.PickInt([]int{1, 2, 3, 4, 4, 5})
	maxb = int64(r.PickInt([]int{0, 5, 12, 20, 30, 45, 100, 100000}))
	return
}

// finishDown ends the running generation in an orderly way: Destroy, every held chunk reported, consumers finished
func (b *c03Builder) shutdown(confirmPct int) {
	w := b.w
	if !w.up {
		return
	}
	b.try(bufOp{opDestroy, 0, 0, 0})
	if w.cons == 0 && len(w.hold) > 0 {
		return // cannot report without a consumer registration
	}
	// (every loop ends when an operation is not applicable: on a broken implementation the world may refuse it for ever)
	for len(w.hold) > 0 {
		i := int64(b.r.Intn(len(w.hold)))
		if b.r.Intn(100) < confirmPct {
			if !b.try(bufOp{opConsumed, i, 0, 0}) {
				return
			}
		} else {
			ws := int64(0)
			if b.r.Chance(1, 10) {
				ws = int64(1 + b.r.Intn(2))
			}
			if !b.try(bufOp{opLeftover, i, 0, ws}) {
				return
			}
		}
	}
	for w.cons > 0 {
		if !b.try(bufOp{opFinish, 0, 0, 0}) {
			return
		}
	}
}

func (b *c03Builder) randomWalk(n int) {
	w, r := b.w, b.r
	for i := 0; i < n && w.up && !w.closed; i++ {
		x := r.Intn(100)
		switch {
		case x < 42:
			ws := int64(0)
			if r.Chance(1, 10) {
				ws = int64(1 + r.Intn(2))
			}
			b.accept(ws)
		case x < 64:
			if w.cons == 0 {
				b.try(bufOp{opRegister, 0, 0, 0})
			}
			b.try(bufOp{opTake, 0, 0, 0})
		case x < 78:
			if len(w.hold) > 0 {
				b.try(bufOp{opConsumed, int64(r.Intn(len(w.hold))), 0, 0})
			}
		case x < 84:
			if len(w.hold) > 0 {
				ws := int64(0)
				if r.Chance(1, 6) {
					ws = int64(1 + r.Intn(2))
				}
				b.try(bufOp{opLeftover, int64(r.Intn(len(w.hold))), 0, ws})
			}
		case x < 88:
			b.try(bufOp{opRegister, 0, 0, 0})
		case x < 90:
			// consumer stops early (reports what it holds first, most of the time)
			if w.cons > 0 {
				if r.Chance(3, 4) {
					for len(w.hold) > 0 {
						b.try(bufOp{opLeftover, 0, 0, 0})
					}
				}
				b.try(bufOp{opFinish, 0, 0, 0})
			}
		case x < 95:
			// make the save of a queued chunk fail later: occupy its temporary name
			name := fmt.Sprintf("c%05d.ff.tmp", b.next-r.Intn(6))
			b.try(bufOp{opTamper, b.p([]byte(name)), int64(r.PickInt([]int{2, 2, 0, 1})), b.p([]byte("x"))})
		default:
			b.try(bufOp{opTamper, b.p([]byte(fmt.Sprintf("junk%03d", r.Intn(100)))), int64(r.Intn(3)), b.p(b.data())})
		}
	}
}

func (b *c03Builder) emit(class string) {
	w := b.w
	out := w.output()
	w.cleanup()
	z := []int64{w.dirsize}
	for _, op := range b.ops {
		z = append(z, op.Code, op.A, op.B, op.C)
	}
	c := &Case{Kind: 0, S: b.pool, Z: z}
	c03Expect[c.Line()] = out
	b.g.Count(class)
	b.g.Count(fmt.Sprintf("ops-%02d+", len(b.ops)/10*10))
	b.g.Case(0, b.pool, z)
	delete(c03Expect, c.Line())
}

func c03Gen(g *Gen) {
	r := g.R
	// ---- restart on a backlog, input arriving the moment Start() has returned (kind 1) ----
	c03StartGen(g)
	// ---- directed scenarios ----
	// (1) hand-back at shutdown under a full quota / without directory / with a failing write
	for _, quota := range []int64{0, 8, 10, 19, 20, 100} {
		for _, nodir := range []bool{false, true} {
			for ws := int64(0); ws <= 2; ws++ {
				b := newC03Builder(g)
				code := int64(opRestart)
				if nodir {
					code = opRestartNoDir
				}
				b.try(bufOp{code, 4, 4, quota})
				b.try(bufOp{opRegister, 0, 0, 0})
				b.acceptSized(10)
				b.acceptSized(10)
				b.try(bufOp{opTake, 0, 0, 0})
				b.try(bufOp{opTake, 0, 0, 0})
				b.try(bufOp{opDestroy, 0, 0, 0})
				b.try(bufOp{opLeftover, 0, 0, ws})
				b.try(bufOp{opLeftover, 0, 0, 0})
				b.try(bufOp{opFinish, 0, 0, 0})
				b.emit("directed-handback")
			}
		}
	}
	// (2) queue overflow with a stalled consumer; spill at half window; quota reached
	for _, Q := range []int{1, 2, 5} {
		for _, M := range []int{1, 2, 4, 5} {
			for _, quota := range []int64{0, 25, 1000} {
				b := newC03Builder(g)
				b.try(bufOp{opRestart, int64(Q), int64(M), quota})
				for i := 0; i < Q+M+4; i++ {
					b.acceptSized(8 + i%3)
				}
				if r.Bool() {
					b.try(bufOp{opRegister, 0, 0, 0})
					for i := 0; i < M+1; i++ {
						b.try(bufOp{opTake, 0, 0, 0})
					}
					b.acceptSized(7)
					b.acceptSized(7)
				}
				b.shutdown(50)
				// second generation recovers what was saved
				b.try(bufOp{opRestart, int64(Q + 1), int64(M), 1000})
				b.try(bufOp{opRegister, 0, 0, 0})
				for b.try(bufOp{opTake, 0, 0, 0}) {
					b.try(bufOp{opConsumed, 0, 0, 0})
				}
				b.try(bufOp{opProbe, 0, 0, 0})
				b.shutdown(100)
				b.emit("directed-overflow")
			}
		}
	}
	// (2b) start-up directories with an EMPTY file under a valid chunk name at every queue position (and a good
	// file everywhere else): the empty one is dropped and counted, never offered; the others are delivered
	for nfiles := 1; nfiles <= 4; nfiles++ {
		for pos := 0; pos < nfiles; pos++ {
			for _, M := range []int64{1, 3} {
				for _, Q := range []int64{int64(nfiles), int64(nfiles) + 2, int64(pos) + 1} {
					b := newC03Builder(g)
					for j := 0; j < nfiles; j++ {
						name := b.p([]byte(fmt.Sprintf("e%d%d%02d.ff", nfiles, pos, j)))
						if j == pos {
							b.try(bufOp{opTamper, name, 1, b.p([]byte{})})
						} else {
							b.try(bufOp{opTamper, name, 1, b.p(r.Bytes(r.Range(1, 9), []byte("abcdefgh")))})
						}
					}
					b.try(bufOp{opRestart, Q, M, 100000})
					b.try(bufOp{opRegister, 0, 0, 0})
					for k := 0; k < nfiles+1 && b.try(bufOp{opTake, 0, 0, 0}); k++ {
						b.try(bufOp{opConsumed, 0, 0, 0})
					}
					b.try(bufOp{opProbe, 0, 0, 0})
					b.shutdown(100)
					b.emit("recovery-empty-file")
				}
			}
		}
	}
	// (3) recovery: planted files of every kind, more files than the queue holds
	for i := 0; i < g.Pick(30, 300); i++ {
		b := newC03Builder(g)
		np := r.Range(1, 9)
		for j := 0; j < np; j++ {
			b.plant()
		}
		Q, M, maxb := b.params()
		b.try(bufOp{opRestart, int64(Q), int64(M), maxb})
		b.try(bufOp{opRegister, 0, 0, 0})
		b.randomWalk(r.Range(0, 12))
		for k := 0; k < 12 && b.try(bufOp{opTake, 0, 0, 0}); k++ {
			if r.Chance(4, 5) {
				b.try(bufOp{opConsumed, 0, 0, 0})
			}
		}
		b.try(bufOp{opProbe, 0, 0, 0})
		b.shutdown(r.PickInt([]int{0, 50, 100}))
		if r.Bool() {
			Q, M, maxb = b.params()
			b.try(bufOp{opRestart, int64(Q), int64(M), maxb})
			b.randomWalk(r.Range(0, 8))
			b.shutdown(50)
		}
		b.emit("recovery")
	}
	// ---- the feeder goroutine kept from running (FIFO as first recovered chunk): loaded chunks pile up in the
	// queue while the window is empty, the queue overflows with loaded chunks, shutdown finds loaded chunks in
	// the queue and in the feeder's hand ----
	for i := 0; i < g.Pick(60, 600); i++ {
		b := newC03Builder(g)
		if r.Chance(1, 3) {
			for j := r.Range(1, 3); j > 0; j-- {
				b.plant()
			}
		}
		Q := r.PickInt([]int{1, 2, 3, 4, 6})
		M := r.PickInt([]int{1, 2, 2, 3, 4, 5})
		maxb := int64(r.PickInt([]int{0, 5, 12, 20, 30, 100000}))
		if !b.try(bufOp{opHold, b.p([]byte("0hold.ff")), int64(Q*1000 + M), maxb}) {
			b.w.cleanup()
			continue
		}
		if r.Bool() {
			b.try(bufOp{opRegister, 0, 0, 0})
		}
		for k := r.Range(1, Q+3); k > 0; k-- {
			ws := int64(0)
			if r.Chance(1, 10) {
				ws = int64(1 + r.Intn(2))
			}
			b.accept(ws)
		}
		b.try(bufOp{opRelease, 0, 0, 0})
		if b.w.cons == 0 && r.Chance(2, 3) {
			b.try(bufOp{opRegister, 0, 0, 0})
		}
		b.randomWalk(r.Range(0, 6))
		b.shutdown(r.PickInt([]int{0, 50, 100}))
		if b.w.up && b.w.fpc == 'z' && r.Bool() {
			Q2, M2, maxb2 := b.params()
			b.try(bufOp{opRestart, int64(Q2), int64(M2), maxb2})
			b.try(bufOp{opRegister, 0, 0, 0})
			for k := 0; k < 10 && b.try(bufOp{opTake, 0, 0, 0}); k++ {
				b.try(bufOp{opConsumed, 0, 0, 0})
			}
			b.shutdown(100)
		}
		if mm := b.w.maxLoadedQueued; mm > int64(M) {
			g.Count("loaded-in-queue-exceeds-window")
		}
		b.emit("starved-feeder")
	}
	// ---- random histories over several generations ----
	for i := 0; i < g.Pick(150, 3000); i++ {
		b := newC03Builder(g)
		ngen := r.Range(1, 3)
		for k := 0; k < ngen; k++ {
			if r.Chance(1, 3) {
				for j := r.Range(1, 4); j > 0; j-- {
					b.plant()
				}
			}
			Q, M, maxb := b.params()
			code := int64(opRestart)
			if r.Chance(1, 8) {
				code = opRestartNoDir
			}
			if !b.try(bufOp{code, int64(Q), int64(M), maxb}) {
				break
			}
			if r.Chance(2, 3) {
				b.try(bufOp{opRegister, 0, 0, 0})
			}
			b.randomWalk(r.Range(3, 40))
			if r.Chance(1, 10) {
				b.try(bufOp{opCrash, 0, 0, 0})
				continue
			}
			if b.w.cons == 0 && r.Chance(1, 2) {
				b.try(bufOp{opRegister, 0, 0, 0})
			}
			b.shutdown(r.PickInt([]int{0, 30, 70, 100}))
			if b.w.up && b.w.fpc != 'z' {
				break // consumer never registered for chunks left: generation cannot end
			}
		}
		b.emit("random")
	}
}

var _ = strings.Contains

func init() {
	register(&Prop{ID: "C03", Gen: c03Gen, Run: c03Run})
}
