package main

// c18_late.go — the "late session" of C18: a connection becomes the client's active session AFTER the abort-on-stop
// callback has run (ClientWorker: inputClosed.Next(...) aborts activeSession once; runSession stores the new session
// only after newClientSession returned).  Such a session is not aborted by the stop: with leftovers to re-send and an
// upstream that does not read, every SendChunk lasts until its deadline; when that is longer than Destroy's deadline
// (BufferShutDownTimeout + IntermediateChannelTimeout) Shutdown returns through "BUG: couldn't stop feeder in time"
// while the client still holds chunks that exist only in memory.
//
// Staging on the REAL ClientWorker / clientSession / bufferer, with a wrapped connection that only does what the
// connection contract allows: Logger() of the second connection returns late (the goroutine is "descheduled" between
// `conn = <-connCh` and `activeSession.Store(sess)` until the stop signal has been raised), and its SendChunk /
// ReadChunkAck block until their deadline or Close.  resendLeftovers then selects between the stop signal and the
// next leftover at random: the scenario is repeated until the leftover case is taken (probability 1/2 per attempt).

import (
	"errors"
	"fmt"
	"os"
	"sync"
	"time"

	"github.com/relex/gotils/channels"
	"github.com/relex/gotils/logger"
	"github.com/relex/gotils/promexporter/promreg"
	"github.com/relex/slog-agent/base"
	"github.com/relex/slog-agent/defs"
	"github.com/relex/slog-agent/output/baseoutput"
	"github.com/relex/slog-agent/output/fluentdforward"
)

type c18LateState struct {
	mu          sync.Mutex
	attempts    int
	inLogger    chan struct{} // closed when the second connection's Logger() has been entered
	inputClosed channels.Awaitable
	lateSends   int // SendChunk calls on a late connection
	conns       []*c18LateConn
}

type c18LateConn struct {
	inner  baseoutput.ClosableClientConnection
	st     *c18LateState
	n      int
	once   sync.Once
	logged bool
	closed chan struct{}
}

func (c *c18LateConn) Logger() logger.Logger {
	if c.n >= 1 && !c.logged {
		c.logged = true
		c.st.mu.Lock()
		select {
		case <-c.st.inLogger:
		default:
			close(c.st.inLogger)
		}
		c.st.mu.Unlock()
		<-c.st.inputClosed.Channel()      // ... the stop signal is raised,
		time.Sleep(30 * time.Millisecond) // the abort-on-stop callback runs and finds no active session
	}
	return c.inner.Logger()
}

func (c *c18LateConn) waitUntil(deadline time.Time) error {
	select {
	case <-c.closed:
		return errors.New("c18: use of closed connection")
	case <-time.After(time.Until(deadline)):
		return errors.New("c18: i/o timeout")
	}
}

func (c *c18LateConn) SendChunk(chunk base.LogChunk, deadline time.Time) error {
	if c.n >= 1 {
		c.st.mu.Lock()
		c.st.lateSends++
		c.st.mu.Unlock()
		return c.waitUntil(deadline) // the peer does not read: the write blocks
	}
	return c.inner.SendChunk(chunk, deadline)
}

func (c *c18LateConn) SendPing(deadline time.Time) error { return c.inner.SendPing(deadline) }

func (c *c18LateConn) ReadChunkAck(deadline time.Time) (string, error) {
	if c.n >= 1 {
		return "", c.waitUntil(deadline)
	}
	return c.inner.ReadChunkAck(deadline)
}

func (c *c18LateConn) Close() {
	c.once.Do(func() { close(c.closed) })
	c.inner.Close()
}

// c18LateAttempt runs the staging once.  reproduced = a leftover was sent on the late session.
func c18LateAttempt(p c18Params, r *Rng) (elapsedMs int64, reproduced bool, missing int, note string) {
	dir, err := os.MkdirTemp("", "c18late-")
	if err != nil {
		return 0, false, 0, "not-staged:tempdir"
	}
	defer os.RemoveAll(dir)
	ep := e2eDefaultParams()
	ep.InputFlushMs, ep.ChannelTimeoutMs, ep.BufferShutdownMs = int(p.TIn), int(p.TCh), int(p.TBs)
	ep.ConnTimeoutMs, ep.SendTimeoutMs, ep.AckTimeoutMs, ep.AckerStopMs, ep.RetryMs = int(p.TConn), int(p.TSend), int(p.TAck), int(p.TAckStop), 100
	ep.PingMs, ep.FlushIntervalMs, ep.MemLen, ep.QueueLen, ep.AckPending = 20000, 30, 8, 256, 64
	ep.ChunkMaxRecords = 2
	e2eApplyParams(ep)
	tr := newE2ETrace()
	usrv, err := c18NewUpstream([]int{srvDiscard}, false)
	if err != nil {
		return 0, false, 0, "not-staged:upstream"
	}
	defer usrv.Close()
	cfg := e2eConfig{Dir: dir, Keys: []string{"app"}, Outputs: []e2eOutput{{Name: "out1", Addr: usrv.Addr(), Mode: "Forward", MaxBufSize: "1GB"}},
		StopTimeout: 20 * time.Second}
	ag, err := e2eNewAgent(cfg, tr)
	if err != nil {
		return 0, false, 0, "not-staged:agent"
	}
	st := &c18LateState{inLogger: make(chan struct{})}
	err = c18StartWithOverride(ag, func(parentLogger logger.Logger, name string, decoder base.ChunkDecoder, args base.ChunkConsumerArgs) base.ChunkConsumer {
		fcfg := decoder.(*fluentdforward.Config)
		st.mu.Lock()
		st.inputClosed = args.InputClosed
		st.mu.Unlock()
		clientLogger := parentLogger.WithField(defs.LabelComponent, "FluentdForwardClient")
		return baseoutput.NewClientWorker(clientLogger, args, promreg.NewMetricFactory("c18late_", nil, nil),
			func() (baseoutput.ClosableClientConnection, error) {
				st.mu.Lock()
				n := st.attempts
				st.attempts++
				st.mu.Unlock()
				conn, cerr := fluentdforward.VerifOpenForwardConnection(clientLogger, fcfg.Upstream)
				if cerr != nil {
					return nil, cerr
				}
				c := &c18LateConn{inner: conn, st: st, n: n, closed: make(chan struct{})}
				st.mu.Lock()
				st.conns = append(st.conns, c)
				st.mu.Unlock()
				return c, nil
			}, fcfg.Upstream.MaxDuration)
	})
	if err != nil {
		return 0, false, 0, "not-staged:start"
	}
	defer func() {
		st.mu.Lock()
		conns := st.conns
		st.mu.Unlock()
		for _, c := range conns {
			c.Close()
		}
	}()
	cl, err := e2eDial(ag.Addr(), 0, tr)
	if err != nil {
		return 0, false, 0, "not-staged:dial"
	}
	defer cl.Close(false)
	want := map[e2eStamp]bool{}
	mk := func(from, n int) []e2eRecord {
		var recs []e2eRecord
		for i := from; i < from+n; i++ {
			rec := e2eMakeRecord(e2eStamp{Conn: 0, Seq: i}, e2eRecordSpec{Class: rcGood, Pri: 14, App: "ka", Source: "x1", Host: "h1", Payload: "late session payload", TimeIdx: i})
			recs = append(recs, rec)
			want[rec.Stamp] = true
		}
		return recs
	}
	// first session: chunks are sent, never acknowledged
	if cl.Send(mk(0, 8), nil) != nil || !ag.WaitInputSeen(8, 15*time.Second) {
		return 0, false, 0, "not-staged:input"
	}
	deadline := time.Now().Add(5 * time.Second)
	for usrv.Received() == 0 && time.Now().Before(deadline) {
		time.Sleep(2 * time.Millisecond)
	}
	time.Sleep(80 * time.Millisecond)
	// the upstream drops the connection; the next chunk makes the sender notice: leftovers, retry wait, second connection
	usrv.mu.Lock()
	for _, c := range usrv.conns {
		c.Close()
	}
	usrv.mu.Unlock()
	time.Sleep(20 * time.Millisecond)
	if cl.Send(mk(8, 2), nil) != nil || !ag.WaitInputSeen(10, 15*time.Second) {
		return 0, false, 0, "not-staged:input"
	}
	select {
	case <-st.inLogger:
	case <-time.After(10 * time.Second):
		return 0, false, 0, "not-staged:no-second-connection"
	}
	time.Sleep(time.Duration(10+r.Intn(20)) * time.Millisecond)
	if err := ag.Stop(); err != nil {
		return cfg.StopTimeout.Milliseconds(), true, 0, "stop-timeout"
	}
	elapsedMs = ag.StopDur.Milliseconds()
	st.mu.Lock()
	reproduced = st.lateSends > 0
	st.mu.Unlock()
	have := map[e2eStamp]bool{}
	for _, qf := range ag.QueueFiles("out1") {
		for _, s := range qf.stamps() {
			have[s] = true
		}
	}
	for s := range want {
		if !have[s] {
			missing++
		}
	}
	return elapsedMs, reproduced, missing, ""
}

// c18RunLateScenario: repeat the staging until the late session re-sends a leftover (or give up).
func c18RunLateScenario(seed uint64, idx int) (c18Params, *c18Result) {
	p := c18DefaultParams()
	res := &c18Result{Shape: c18Shape{NConn: 1, NFlush: 4, NPipe: 1, NOut: 1, NLeft: 4, NWin: 8, HasDir: true, WorkerLive: true, LateAbort: true}}
	r := c18Rng(seed, idx)
	tries := 0
	for tries < 8 {
		tries++
		elapsed, reproduced, missing, note := c18LateAttempt(p, r)
		res.ElapsedMs = elapsed
		if note != "" {
			res.Note = note
			if note == "stop-timeout" {
				res.Fails = append(res.Fails, Fail{Sig: "c18:stop:did-not-complete", Desc: "late-session: shutdownInputs()+Shutdown() did not return"})
			}
			return p, res
		}
		bs, _, _, _, _ := c18Bounds(c18ConnectingLate, p, res.Shape)
		if elapsed > bs+c18SlackMs {
			res.Fails = append(res.Fails, Fail{Sig: "c18:stop:too-slow", Desc: fmt.Sprintf("late-session: stop took %d ms, bound %d ms", elapsed, bs)})
		}
		if missing > 0 {
			res.Fails = append(res.Fails, Fail{Sig: "c18:disk:chunk-only-in-memory:late-session",
				Desc: fmt.Sprintf("late-session (attempt %d): a connection became the active session after the abort-on-stop callback had run; its re-send of a leftover was not aborted by the stop, Shutdown returned after %d ms (Destroy's deadline) and %d accepted records are in no queue file", tries, elapsed, missing)})
			return p, res
		}
		if reproduced {
			res.Note = "late-session-resent-but-saved"
			return p, res
		}
	}
	res.Note = "late-session-not-hit"
	return p, res
}
