package main

// C11, family "large records between small ones" (follow-up to the wave-4 miss seeded/C11/8).
//
// intermediateChunk.Write hands every record to the chunk's sink (the gzip writer in CompressedPackedForward /
// Datadog, the write buffer otherwise) at once, whatever its size.  A sink-side staging ("batch") buffer that
// large records bypass would reorder records INSIDE a chunk; nothing else (count, ids, limits, bytes in total)
// changes.  The streams here therefore mix records at and around 64 KiB (and the other powers of two a
// buffering layer is likely to use) with small ones, in every mode, and every chunk is decoded (gunzip +
// msgpack / JSON) and compared with the exact written sequence (oracle c11:order-within-chunk / c11:payload).
//
//   kind 1  (all four targets): lengths only; model compares count / payload length, the Go oracle the bytes
//   kind 8  (PackedForward, CompressedPackedForward): as kind 1, records are runs of ONE letter ('a'+op index
//           mod 26); the canonical payload is "<length>=<letter>x<run>+<letter>x<run>..." (run-length form of
//           the decoded payload), which the model computes from what its Write fed to the sink, in feed order.

import (
	"bytes"
	"fmt"
	"strconv"
	"strings"
)

// run-length form of a byte string: "97x10+98x65536"; "" for the empty string
func c11RunLengths(b []byte) string {
	var sb strings.Builder
	for i := 0; i < len(b); {
		j := i
		for j < len(b) && b[j] == b[i] {
			j++
		}
		if sb.Len() > 0 {
			sb.WriteByte('+')
		}
		sb.WriteString(strconv.Itoa(int(b[i])))
		sb.WriteByte('x')
		sb.WriteString(strconv.Itoa(j - i))
		i = j
	}
	return sb.String()
}

func c11Lens(recs [][]byte) []int {
	l := make([]int, len(recs))
	for i, r := range recs {
		l[i] = len(r)
	}
	return l
}

// is payload the concatenation of the records in SOME order? returns the order found (position -> record index)
// or nil; bounded search (the records of one chunk, a few dozen at most in the families that use it)
func c11IsPermutation(payload []byte, recs [][]byte) []int {
	total := 0
	for _, r := range recs {
		total += len(r)
	}
	if total != len(payload) || len(recs) > 200 {
		return nil
	}
	used := make([]bool, len(recs))
	order := make([]int, 0, len(recs))
	budget := 20000
	var rec func(off int) bool
	rec = func(off int) bool {
		if len(order) == len(recs) {
			return off == len(payload)
		}
		for i, r := range recs {
			if used[i] {
				continue
			}
			if budget--; budget < 0 {
				return false
			}
			if !bytes.HasPrefix(payload[off:], r) {
				continue
			}
			used[i] = true
			order = append(order, i)
			if rec(off + len(r)) {
				return true
			}
			order = order[:len(order)-1]
			used[i] = false
		}
		return false
	}
	if rec(0) {
		return order
	}
	return nil
}

// sizes at which a buffering layer in front of the sink is likely to change its behaviour
var c11LargeSizes = []int{65535, 65536, 65537, 70000, 131071, 131072, 131073, 32768, 32769, 16384, 4096, 4097, 8192, 262144, 100000}

func c11GenLarge(g *Gen) {
	r := g.R
	lo := func(target int) int {
		if target == 0 || target >= 3 {
			return 1
		}
		return 0
	}
	emit := func(kind, target, maxr, maxb int, ops []int64, class string) {
		z := append([]int64{int64(target), int64(maxr), int64(maxb), 0}, ops...)
		g.Count(class + fmt.Sprintf(":target%d", target))
		g.Case(kind, [][]byte{[]byte("t")}, z)
	}
	kindsOf := func(target int) []int {
		if target == 1 || target == 2 {
			return []int{8, 1}
		}
		return []int{1}
	}
	// (a) minimal shapes: k small records, one large record, m small records; no limit / limit that holds all
	for target := 0; target <= 3; target++ {
		for _, L := range []int{65535, 65536, 65537, 70000, 131072} {
			for _, small := range [][]int64{{10}, {1, 2, 3}, {300, 300}} {
				for _, kind := range kindsOf(target) {
					ops := append(append([]int64{}, small...), int64(L), 7)
					emit(kind, target, 0, 0, ops, "large:minimal")
					if kind == 8 || target == 0 || target == 3 {
						emit(kind, target, 0, 1<<20, append([]int64{5}, ops...), "large:minimal")
					}
				}
			}
		}
	}
	// (b) the amount waiting before the large record: around every likely buffer size
	for i := 0; i < g.Pick(24, 400); i++ {
		target := i % 4
		kind := kindsOf(target)[0]
		before := r.PickInt(c11LargeSizes) + r.Range(-2, 2)
		k := r.Range(1, 5)
		var ops []int64
		each := before / k
		for j := 0; j < k-1; j++ {
			ops = append(ops, int64(each))
		}
		ops = append(ops, int64(before-each*(k-1)))
		ops = append(ops, int64(r.PickInt(c11LargeSizes)+r.Range(-1, 1)))
		ops = append(ops, int64(r.Range(lo(target), 40)))
		emit(kind, target, 0, r.PickInt([]int{0, 0, 1 << 20, 1 << 21}), ops, "large:waiting")
	}
	// (c) random mixtures: small, medium and large records, flushes, limits around the large sizes
	for i := 0; i < g.Pick(40, 1500); i++ {
		target := i % 4
		kind := kindsOf(target)[r.Intn(len(kindsOf(target)))]
		n := r.PickInt([]int{2, 3, 5, 8, 12, 20})
		var ops []int64
		for j := 0; j < n; j++ {
			switch {
			case r.Chance(1, 10):
				ops = append(ops, -1)
			case r.Chance(1, 4):
				ops = append(ops, int64(r.PickInt(c11LargeSizes)+r.PickInt([]int{-1, 0, 0, 1})))
			case r.Chance(1, 5):
				ops = append(ops, int64(r.Range(1000, 40000)))
			default:
				ops = append(ops, int64(r.Range(lo(target), 300)))
			}
		}
		maxb := r.PickInt([]int{0, 0, 65536, 65537, 100000, 131072, 200000, 1 << 20})
		maxr := r.PickInt([]int{0, 0, 0, 2, 3, 5})
		emit(kind, target, maxr, maxb, ops, "large:mixed")
	}
}
