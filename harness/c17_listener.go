package main

// C17, kind 1: the REAL tcpLineListener (input/tcplistener) in front of the REAL ReloadableOrchestrator.
// The listener's receiver is a thin adapter (what logParsingReceiver is in production, without parsing and
// buffering): NewSink -> orc.NewSink, Accept -> ReloadableSink.Accept of one record, Flush -> Tick,
// Close -> Close; it records every call in one total order, recovers panics (so that the harness process
// survives what would kill the agent) and can hold a connection goroutine inside Flush.
//
// The scenario: connection A sends records and closes; its goroutine reads EOF and enters its final Flush,
// where the adapter holds it.  A new connection B is made: the kernel hands out the lowest free descriptor
// number.  Before the fix of defect 14 the closer goroutine had closed A's descriptor by then, B got A's
// number and B's NewSink arrived while A's sink was not closed (panic / lost records after A's Close); now
// A's descriptor stays open until A's sink is closed and B gets another number.  Then A is released
// (Flush, Close) and B sends again.
//
// Because the kernel decides the numbers, the observed call sequence is the INPUT of the case (kind 1); the
// model replays it on the listener LTS and must predict the observed outcomes (deliveries, panics).

import (
	"fmt"
	"net"
	"strings"
	"sync"
	"time"

	"github.com/relex/gotils/channels"
	"github.com/relex/gotils/logger"
	"github.com/relex/slog-agent/base"
	"github.com/relex/slog-agent/defs"
	"github.com/relex/slog-agent/input/tcplistener"
)

type c17Adapter struct {
	sc     *c17Scenario
	mu     sync.Mutex
	cond   *sync.Cond
	events []int64 // triples: calls 1..4, outcomes 5 (panic t site), 6 (delivery rec gen*2+alive), 7 (dead hand-over rec gen)
	sinks  []*c17AdSink
	fdmap  map[int]int
	seen   int // entries of sc.log already copied into events
	next   int64
}

type c17AdSink struct {
	ad        *c17Adapter
	t         int
	num       int
	rs        base.BufferReceiverSink
	dead      bool
	hold      chan struct{} // non-nil: Flush waits on it
	inFlush   bool
	closeCall bool
	accepts   int // Accept calls completed
	ready     bool
}

// add appends an event; the caller holds ad.mu
func (ad *c17Adapter) add(code, a, b int64) {
	ad.events = append(ad.events, code, a, b)
	ad.cond.Broadcast()
}

// call runs fn (a call into the ReloadableOrchestrator / ReloadableSink) as pseudo goroutine t, recovers a
// panic and copies what the downstream doubles observed meanwhile.  The caller must NOT hold ad.mu: a call
// that blocks inside the orchestrator must not block the harness (whose waits all have deadlines).
func (ad *c17Adapter) call(t int, opKind int, fn func()) (panicked bool) {
	sc := ad.sc
	id := c17Goid()
	sc.mu.Lock()
	sc.byGoid[id] = &c17Thread{id: t, nopark: true}
	sc.mu.Unlock()
	defer func() {
		r := recover()
		sc.mu.Lock()
		delete(sc.byGoid, id)
		ad.mu.Lock()
		defer ad.mu.Unlock()
		newObs := append([]c17Obs{}, sc.log[ad.seen:]...)
		ad.seen = len(sc.log)
		sc.mu.Unlock()
		for _, o := range newObs {
			switch o.kind {
			case 'd':
				al := int64(0)
				if o.alive {
					al = 1
				}
				ad.add(6, o.rec, int64(o.gen)*2+al)
			case 'h':
				if !o.alive {
					ad.add(7, o.rec, int64(o.gen))
				}
			}
		}
		if r != nil {
			panicked = true
			site := int64(9)
			msg := fmt.Sprint(r)
			if strings.Contains(msg, "nil pointer") || strings.Contains(msg, "invalid memory address") {
				site = int64(opKind)
			} else if strings.Contains(msg, "index out of range") {
				site = 1
			}
			ad.add(5, int64(t), site)
		}
	}()
	fn()
	return false
}

func (ad *c17Adapter) NewSink(clientAddress string, clientNumber base.ClientNumber) base.MessageReceiverSink {
	ad.mu.Lock()
	t := len(ad.sinks)
	n, ok := ad.fdmap[int(clientNumber)]
	if !ok {
		n = len(ad.fdmap)
		ad.fdmap[int(clientNumber)] = n
	}
	s := &c17AdSink{ad: ad, t: t, num: n}
	ad.sinks = append(ad.sinks, s)
	ad.add(1, int64(t), int64(n))
	ad.mu.Unlock()
	var rs base.BufferReceiverSink
	dead := ad.call(t, 1, func() { rs = ad.sc.env.orc.NewSink(fmt.Sprintf("c%d", t), clientNumber) })
	ad.mu.Lock()
	s.rs, s.dead = rs, dead
	s.ready = true
	ad.cond.Broadcast()
	ad.mu.Unlock()
	return s
}

func (s *c17AdSink) Accept(message []byte) {
	ad := s.ad
	ad.mu.Lock()
	if s.dead {
		s.accepts++
		ad.cond.Broadcast()
		ad.mu.Unlock()
		return
	}
	rec := &base.LogRecord{RawLength: int(ad.next)}
	ad.next++
	ad.add(2, int64(s.t), 1)
	rs := s.rs
	ad.mu.Unlock()
	dead := ad.call(s.t, 2, func() { rs.Accept([]*base.LogRecord{rec}) })
	ad.mu.Lock()
	s.dead = s.dead || dead
	s.accepts++
	ad.cond.Broadcast()
	ad.mu.Unlock()
}

func (s *c17AdSink) Flush() {
	ad := s.ad
	ad.mu.Lock()
	if s.hold != nil {
		h := s.hold
		s.inFlush = true
		ad.cond.Broadcast()
		ad.mu.Unlock()
		<-h
		ad.mu.Lock()
		s.hold = nil
	}
	if s.dead {
		ad.mu.Unlock()
		return
	}
	ad.add(3, int64(s.t), 0)
	rs := s.rs
	ad.mu.Unlock()
	dead := ad.call(s.t, 3, func() { rs.Tick() })
	ad.mu.Lock()
	s.dead = s.dead || dead
	ad.mu.Unlock()
}

func (s *c17AdSink) Close() {
	ad := s.ad
	ad.mu.Lock()
	if s.dead {
		s.closeCall = true
		ad.cond.Broadcast()
		ad.mu.Unlock()
		return
	}
	ad.add(4, int64(s.t), 0)
	rs := s.rs
	ad.mu.Unlock()
	dead := ad.call(s.t, 4, func() { rs.Close() })
	ad.mu.Lock()
	s.dead = s.dead || dead
	s.closeCall = true
	ad.cond.Broadcast()
	ad.mu.Unlock()
}

// waitFor waits (with the adapter lock) until cond holds; false on timeout
func (ad *c17Adapter) waitFor(cond func() bool) bool {
	deadline := time.Now().Add(10 * time.Second)
	timer := time.AfterFunc(11*time.Second, func() { ad.mu.Lock(); ad.cond.Broadcast(); ad.mu.Unlock() })
	defer timer.Stop()
	ad.mu.Lock()
	defer ad.mu.Unlock()
	for !cond() {
		if time.Now().After(deadline) {
			return false
		}
		ad.cond.Wait()
	}
	return true
}

func c17TestLine(ln []byte) bool { return len(ln) > 0 && ln[0] == '<' }

// c17ListenerDemo returns the zargs of a kind-1 case (nil if the run did not complete)
func c17ListenerDemo(secondConnection bool) []int64 {
	env := c17Setup()
	oldFlush := defs.InputFlushInterval
	defs.InputFlushInterval = 10 * time.Minute // no periodic Flush: the only Flush of a connection is the final one
	defer func() { defs.InputFlushInterval = oldFlush }()

	sc := c17NewScenario(env, 0, 8)
	ad := &c17Adapter{sc: sc, fdmap: map[int]int{}, next: 1}
	ad.cond = sync.NewCond(&ad.mu)
	stop := channels.NewSignalAwaitable()
	lsnr, addr, err := tcplistener.NewTCPLineListener(logger.Root(), "localhost:0", c17TestLine, ad, stop)
	if err != nil {
		return nil
	}
	lsnr.Start()
	defer func() {
		stop.Signal()
		lsnr.Stopped().Wait(10 * time.Second)
	}()
	line := "<163>1 2019-08-15T15:50:46.866915+03:00 local my-app 123 fn - Something\n"

	cA, err := net.DialTimeout("tcp", addr, 5*time.Second)
	if err != nil {
		return nil
	}
	cA.SetWriteDeadline(time.Now().Add(5 * time.Second))
	cA.Write([]byte(line + line)) // the first record is passed on when the start of the second is seen
	if !ad.waitFor(func() bool { return len(ad.sinks) >= 1 && ad.sinks[0].accepts >= 1 }) {
		return nil
	}
	ad.mu.Lock()
	sA := ad.sinks[0]
	sA.hold = make(chan struct{})
	holdA := sA.hold
	ad.mu.Unlock()
	cA.Close() // EOF: FlushAll (second record), abort signal -> closer goroutine closes the descriptor; final Flush is held
	if !ad.waitFor(func() bool { return sA.inFlush }) {
		close(holdA)
		return nil
	}
	time.Sleep(30 * time.Millisecond) // the closer goroutine has closed A's descriptor by now

	var cB net.Conn
	if secondConnection {
		cB, err = net.DialTimeout("tcp", addr, 5*time.Second)
		if err != nil {
			close(holdA)
			return nil
		}
		cB.SetWriteDeadline(time.Now().Add(10 * time.Second))
		cB.Write([]byte(line + line))
		if !ad.waitFor(func() bool { return len(ad.sinks) >= 2 && ad.sinks[1].accepts >= 1 }) {
			close(holdA)
			return nil
		}
	}
	close(holdA) // A: final Flush, deferred Close
	if !ad.waitFor(func() bool { return sA.closeCall }) {
		return nil
	}
	if secondConnection {
		sB := ad.sinks[1]
		n0 := sB.accepts
		cB.Write([]byte(line))
		if !ad.waitFor(func() bool { return sB.accepts > n0 }) {
			return nil
		}
		cB.Close()
		if !ad.waitFor(func() bool { return sB.closeCall }) {
			return nil
		}
	}
	ad.mu.Lock()
	defer ad.mu.Unlock()
	z := []int64{int64(len(ad.sinks)), int64(len(ad.fdmap) + 1)}
	return append(z, ad.events...)
}

// c17RunListenerTrace evaluates an observed trace: the canonical output is what was observed (deliveries,
// panics), the oracle is the property on the observation
func c17RunListenerTrace(c *Case) (string, []Fail) {
	if len(c.Z) < 2 || (len(c.Z)-2)%3 != 0 {
		return "badcase", nil
	}
	type sinkSt struct {
		num    int
		closed bool
	}
	sinks := map[int]*sinkSt{}
	reuse := false
	var outs []string
	accepted := map[int64]bool{}
	delivered := map[int64]int{}
	next := int64(1)
	panics, dead := false, false
	var lastAcc []int64
	var desc []string
	for i := 2; i+2 < len(c.Z); i += 3 {
		code, a, b := c.Z[i], c.Z[i+1], c.Z[i+2]
		switch code {
		case 1:
			for _, s := range sinks {
				if s.num == int(b) && !s.closed {
					reuse = true
				}
			}
			sinks[int(a)] = &sinkSt{num: int(b)}
			desc = append(desc, fmt.Sprintf("NewSink(conn %d, number %d)", a, b))
		case 2:
			lastAcc = nil
			for k := int64(0); k < b; k++ {
				accepted[next] = true
				lastAcc = append(lastAcc, next)
				next++
			}
			desc = append(desc, fmt.Sprintf("Accept(conn %d)", a))
		case 3:
			desc = append(desc, fmt.Sprintf("Flush(conn %d)", a))
		case 4:
			if s := sinks[int(a)]; s != nil {
				s.closed = true
			}
			desc = append(desc, fmt.Sprintf("Close(conn %d)", a))
		case 5:
			panics = true
			outs = append(outs, fmt.Sprintf("x%d@%d", a, b))
			desc = append(desc, "PANIC")
		case 6:
			bang := ""
			if b%2 == 0 {
				bang = "!"
				dead = true
			}
			delivered[a]++
			outs = append(outs, fmt.Sprintf("dr%dg%d%s", a, b/2, bang))
		case 7:
			dead = true
		}
	}
	var lost []string
	for r := int64(1); r < next; r++ {
		if delivered[r] == 0 {
			lost = append(lost, fmt.Sprint(r))
		}
	}
	verdict := "ok"
	switch {
	case panics:
		verdict = "panic"
	case dead:
		verdict = "dead"
	case len(lost) > 0:
		verdict = "lost"
	}
	u := "unique"
	prefix := "c17:listener:"
	var fails []Fail
	d := "observed on the real tcpLineListener + ReloadableOrchestrator: " + strings.Join(desc, ", ")
	if reuse {
		u = "reuse"
		fails = append(fails, Fail{"c17:listener-reuses-number",
			"the listener called NewSink with a client number whose previous sink was not closed yet (" + verdict + "); " + d})
	}
	if panics {
		fails = append(fails, Fail{prefix + "panic-nil-sink", d})
	}
	if dead {
		fails = append(fails, Fail{prefix + "dead-pipeline", d})
	}
	if len(lost) > 0 {
		fails = append(fails, Fail{prefix + "lost", "records " + strings.Join(lost, ",") + " never delivered; " + d})
	}
	for r, n := range delivered {
		if n > 1 {
			fails = append(fails, Fail{prefix + "duplicate", fmt.Sprintf("record %d delivered %d times; %s", r, n, d)})
		}
	}
	return fmt.Sprintf("%s:A=accept;U=%s;O=%s", verdict, u, strings.Join(outs, ",")), fails
}
