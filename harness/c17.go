package main

// C17: configuration reload is safe at any moment.
//
// Implementation under test: the real run.ReloadableOrchestrator / run.ReloadableSink
// (run.NewReloadableOrchestrator, reload() through the verif hook VerifReload), wrapped around
// recording downstream orchestrators and sinks.  Every call into a downstream object parks the
// calling goroutine at its entry until the scenario releases it, so the interleaving of
// NewSink / Accept / Tick / Close of several connections and of reload() is decided step by step
// by the schedule of the case (no source hooks, no sleeps on the decision path).
//
// A schedule is a list of operations (see coq/Model/ReloadReplay.v, [hop]):
//   1 New t n auto | 2 Accept t k auto | 3 Tick t auto | 4 Close t auto | 5 Reload kind auto |
//   6 Step who | 7 Finish who          (who = goroutine number, 1000 = the reload goroutine)
// After each operation the system is settled in the fixed order A (reload takes the write lock),
// B (goroutines blocked at RLock run to their park point), C (one parked auto goroutine is released).

import (
	"errors"
	"fmt"
	"runtime"
	"sort"
	"strings"
	"sync"
	"time"

	"github.com/relex/gotils/logger"
	"github.com/relex/slog-agent/base"
	"github.com/relex/slog-agent/run"
)

const (
	c17ReloadWho        = 1000
	c17TableProbe       = 64 // VerifReset clears the slots below this number (scenario numbers are < 16)
	c17OOBBase          = int(base.MaxClientNumber)
	c17HangTimeout      = 10 * time.Second
	c17HangTimeoutAgain = 3 * time.Second
	c17MaxHangs         = 2               // after that many hanging / stuck scenarios the generator stops (each one costs the timeout)
	c17LockProbe        = 3 * time.Second // a free write lock must be obtained within this time
	c17SettleSpin       = 40 * time.Microsecond
)

// thread status (the harness' expectation)
const (
	thIdle = iota
	thParked
	thBlocked      // at RLock() at the start of an API call
	thBlockedStore // original NewSink: at RLock() after downstream.NewSink
	thDead
)

const (
	rlIdle = iota
	rlInit
	rlWant
	rlPost
)

type c17Obs struct {
	kind  byte // 'h' hand-over, 'd' delivery, 'x' panic
	t     int
	rec   int64
	sink  int
	gen   int
	alive bool
	site  int
}

type c17Thread struct {
	id     int
	status int
	auto   bool
	hstate int // 0 none, 1 open, 2 closed
	num    int // model client number
	opKind int
	inLock bool
	handle base.BufferReceiverSink
	recs   []int64
	// observed, guarded by sc.mu
	parks    int
	gate     string
	parkOp   int
	done     int
	doneOp   int
	panicVal string
	seenPark int
	seenDone int
	release  chan struct{}
	nopark   bool // kind 1: a goroutine of the real listener; identified for the log, never parked
}

type c17Orch struct {
	sc   *c17Scenario
	id   int
	shut bool
}

type c17Sink struct {
	sc      *c17Scenario
	id      int
	gen     *c17Orch
	num     int
	addr    string
	closed  bool
	pending []int64
}

type c17Scenario struct {
	env     *c17Env
	mu      sync.Mutex
	cond    *sync.Cond
	aborted bool
	opIndex int
	byGoid  map[uint64]*c17Thread
	threads []*c17Thread
	rl      *c17Thread
	gens    []*c17Orch
	sinks   []*c17Sink
	log     []c17Obs
	nthr    int
	maxn    int
	lk      bool
	// expectation state
	rlState    int
	rlOK       bool
	rlKind     int
	simReaders int
	simWriter  bool
	pend       []*c17Thread
	store      []*c17Thread
	nextRec    int64
	tokens     []string
	hang       bool
	stuck      bool // the write lock cannot be obtained although no call is in progress
	sawFailed  bool // a reload with an invalid / incompatible configuration was started
	reuse      bool
	oob        bool
	// failed-reload oracle
	rlCallsDuring  int
	failedReloadOK bool
	failNotes      []string
	accepted       map[int64]bool // records whose Accept call returned normally
	panicked       map[int64]bool // records whose Accept call panicked
	succ0, fail0   float64
}

type c17Env struct {
	orc  *run.ReloadableOrchestrator
	mu   sync.Mutex
	cur  *c17Scenario
	lk   bool
	nbad int
}

var c17env *c17Env

func c17Goid() uint64 {
	var buf [64]byte
	n := runtime.Stack(buf[:], false)
	// "goroutine 123 ["
	var id uint64
	for i := len("goroutine "); i < n; i++ {
		c := buf[i]
		if c < '0' || c > '9' {
			break
		}
		id = id*10 + uint64(c-'0')
	}
	return id
}

func (env *c17Env) scenario() *c17Scenario {
	env.mu.Lock()
	defer env.mu.Unlock()
	return env.cur
}

// initiate is the InitiateReloadingFunc given to run.NewReloadableOrchestrator
func (env *c17Env) initiate() (run.CompleteReloadingFunc, error) {
	sc := env.scenario()
	if sc == nil {
		return nil, errors.New("no scenario")
	}
	sc.gate("i")
	sc.mu.Lock()
	ok, kind := sc.rlOK, sc.rlKind
	sc.mu.Unlock()
	if !ok {
		if kind == 1 {
			return nil, errors.New("yaml: invalid configuration")
		}
		return nil, errors.New("schema/maxFields must not change: old=12, new=13")
	}
	return func() base.Orchestrator {
		sc.gate("m")
		sc.mu.Lock()
		defer sc.mu.Unlock()
		g := &c17Orch{sc: sc, id: len(sc.gens)}
		sc.gens = append(sc.gens, g)
		return g
	}, nil
}

func c17NewEnv() *c17Env {
	env := &c17Env{}
	env.orc = run.NewReloadableOrchestrator(&c17Orch{id: -1}, env.initiate)
	return env
}

func c17Setup() *c17Env {
	if c17env != nil {
		return c17env
	}
	logger.SetLogLevel(logger.FatalLevel)
	c17env = c17NewEnv()
	c17env.lk = c17ProbeVariant(c17env)
	return c17env
}

// ---------- recording downstream objects ----------

func (sc *c17Scenario) gate(code string) {
	id := c17Goid()
	sc.mu.Lock()
	th := sc.byGoid[id]
	if th == nil || sc.aborted || th.nopark {
		sc.mu.Unlock()
		return
	}
	th.parks++
	th.gate = code
	th.parkOp = sc.opIndex
	if th == sc.rl && code != "i" {
		sc.rlCallsDuring++
	}
	sc.cond.Broadcast()
	sc.mu.Unlock()
	<-th.release
}

func (sc *c17Scenario) caller() int {
	th := sc.byGoid[c17Goid()]
	if th == nil {
		return -1
	}
	return th.id
}

func (g *c17Orch) NewSink(addr string, num base.ClientNumber) base.BufferReceiverSink {
	sc := g.sc
	if sc == nil {
		return &c17Sink{}
	}
	sc.gate(fmt.Sprintf("n%d_%d", g.id, sc.modelNumOf(num)))
	sc.mu.Lock()
	defer sc.mu.Unlock()
	s := &c17Sink{sc: sc, id: len(sc.sinks), gen: g, num: sc.modelNumOf(num), addr: addr}
	sc.sinks = append(sc.sinks, s)
	return s
}

func (g *c17Orch) Shutdown() {
	sc := g.sc
	if sc == nil {
		return
	}
	sc.gate(fmt.Sprintf("h%d", g.id))
	sc.mu.Lock()
	g.shut = true
	sc.mu.Unlock()
}

func (s *c17Sink) Accept(buffer []*base.LogRecord) {
	sc := s.sc
	if sc == nil {
		return
	}
	sc.gate(fmt.Sprintf("a%d", s.id))
	sc.mu.Lock()
	defer sc.mu.Unlock()
	alive := !s.closed && !s.gen.shut
	t := sc.caller()
	for _, r := range buffer {
		id := int64(r.RawLength)
		s.pending = append(s.pending, id)
		sc.log = append(sc.log, c17Obs{kind: 'h', t: t, rec: id, sink: s.id, gen: s.gen.id, alive: alive})
	}
}

func (s *c17Sink) flushLocked() {
	alive := !s.gen.shut
	for _, id := range s.pending {
		s.sc.log = append(s.sc.log, c17Obs{kind: 'd', rec: id, sink: s.id, gen: s.gen.id, alive: alive})
	}
	s.pending = nil
}

func (s *c17Sink) Tick() {
	sc := s.sc
	if sc == nil {
		return
	}
	sc.gate(fmt.Sprintf("t%d", s.id))
	sc.mu.Lock()
	defer sc.mu.Unlock()
	s.flushLocked()
}

func (s *c17Sink) Close() {
	sc := s.sc
	if sc == nil {
		return
	}
	sc.gate(fmt.Sprintf("c%d", s.id))
	sc.mu.Lock()
	defer sc.mu.Unlock()
	s.flushLocked()
	s.closed = true
}

// ---------- scenario engine ----------

// model client numbers >= maxn stand for numbers >= base.MaxClientNumber of the real table
func (sc *c17Scenario) realNum(n int) base.ClientNumber {
	if n >= sc.maxn {
		return base.ClientNumber(c17OOBBase + n - sc.maxn)
	}
	return base.ClientNumber(n)
}

func (sc *c17Scenario) modelNumOf(num base.ClientNumber) int {
	if int(num) >= c17OOBBase {
		return int(num) - c17OOBBase + sc.maxn
	}
	return int(num)
}

func c17NewScenario(env *c17Env, nthr, maxn int) *c17Scenario {
	sc := &c17Scenario{env: env, nthr: nthr, maxn: maxn, lk: env.lk, byGoid: map[uint64]*c17Thread{},
		nextRec: 1, accepted: map[int64]bool{}, panicked: map[int64]bool{}, failedReloadOK: true}
	sc.cond = sync.NewCond(&sc.mu)
	for i := 0; i < nthr; i++ {
		sc.threads = append(sc.threads, &c17Thread{id: i, release: make(chan struct{}, 4)})
	}
	sc.rl = &c17Thread{id: c17ReloadWho, release: make(chan struct{}, 4)}
	g0 := &c17Orch{sc: sc, id: 0}
	sc.gens = []*c17Orch{g0}
	env.mu.Lock()
	env.cur = sc
	env.mu.Unlock()
	if !c17LockWithDeadline(env, func() { env.orc.VerifReset(g0, c17TableProbe) }) {
		// an earlier scenario left the orchestrator's lock held for ever: continue on a new orchestrator
		env = c17ReplaceEnv(env)
		sc.env = env
		env.mu.Lock()
		env.cur = sc
		env.mu.Unlock()
		env.orc.VerifReset(g0, c17TableProbe)
	}
	sc.succ0, sc.fail0 = run.VerifReloadCounts()
	return sc
}

// c17LockWithDeadline runs fn (which needs the orchestrator's write lock) and reports whether it returned in time;
// no wait of the harness is unbounded
func c17LockWithDeadline(env *c17Env, fn func()) bool {
	done := make(chan struct{})
	go func() {
		fn()
		close(done)
	}()
	select {
	case <-done:
		return true
	case <-time.After(c17LockProbe):
		return false
	}
}

// c17ReplaceEnv abandons an orchestrator that is stuck behind its lock
func c17ReplaceEnv(old *c17Env) *c17Env {
	env := c17NewEnv()
	env.lk = old.lk
	env.nbad = old.nbad + 1
	c17env = env
	return env
}

func (sc *c17Scenario) tok(s string) { sc.tokens = append(sc.tokens, s) }

func (sc *c17Scenario) launch(th *c17Thread, fn func()) {
	go func() {
		id := c17Goid()
		sc.mu.Lock()
		sc.byGoid[id] = th
		sc.mu.Unlock()
		defer func() {
			r := recover()
			sc.mu.Lock()
			delete(sc.byGoid, id)
			th.done++
			th.doneOp = sc.opIndex
			th.panicVal = ""
			if r != nil {
				th.panicVal = fmt.Sprint(r)
			}
			sc.cond.Broadcast()
			sc.mu.Unlock()
		}()
		fn()
	}()
}

// await waits until th has parked or finished once more than already consumed; returns "park", "done" or "hang"
func (sc *c17Scenario) await(th *c17Thread) string {
	to := c17HangTimeout
	if sc.env != nil && sc.env.nbad > 0 {
		to = c17HangTimeoutAgain // something is wrong already: do not spend the long timeout again and again
	}
	deadline := time.Now().Add(to)
	timer := time.AfterFunc(to+200*time.Millisecond, func() {
		sc.mu.Lock()
		sc.cond.Broadcast()
		sc.mu.Unlock()
	})
	defer timer.Stop()
	sc.mu.Lock()
	defer sc.mu.Unlock()
	for {
		if th.parks > th.seenPark {
			th.seenPark++
			return "park"
		}
		if th.done > th.seenDone {
			th.seenDone++
			return "done"
		}
		if sc.hang || time.Now().After(deadline) {
			sc.hang = true
			return "hang"
		}
		sc.cond.Wait()
	}
}

func (sc *c17Scenario) early(op int) string {
	if op != sc.opIndex {
		return "^"
	}
	return ""
}

func (sc *c17Scenario) who(th *c17Thread) string {
	if th == sc.rl {
		return "R"
	}
	return fmt.Sprint(th.id)
}

// claimsNum: another goroutine has an open sink, or a NewSink call in flight, with the same client number
func (sc *c17Scenario) claimsNum(self *c17Thread, n int) bool {
	for _, o := range sc.threads {
		if o == self || o.num != n {
			continue
		}
		if o.hstate == 1 || (o.opKind == 1 && (o.status == thParked || o.status == thBlockedStore)) {
			return true
		}
	}
	return false
}

// afterBegin consumes the outcome of the start of an API call of connection goroutine th
func (sc *c17Scenario) afterBegin(th *c17Thread) {
	if th.opKind == 1 {
		if th.num >= sc.maxn {
			sc.oob = true
		} else if sc.claimsNum(th, th.num) {
			sc.reuse = true
		}
	}
	switch sc.await(th) {
	case "park":
		th.status = thParked
		th.inLock = th.opKind != 1 || sc.lk
		if th.inLock {
			sc.simReaders++
		}
		sc.tok("p" + sc.who(th) + th.gate + sc.early(th.parkOp))
	case "done":
		sc.finishConn(th, false)
	default:
		sc.tok("H" + sc.who(th))
		th.status = thDead
	}
}

// finishConn consumes the return (or panic) of an API call
func (sc *c17Scenario) finishConn(th *c17Thread, wasInLock bool) {
	if wasInLock {
		sc.simReaders--
	}
	th.inLock = false
	if th.panicVal != "" {
		th.status = thDead
		sc.tok("x" + sc.who(th) + sc.early(th.doneOp))
		if th.opKind == 2 {
			for _, r := range th.recs {
				sc.panicked[r] = true
			}
		}
		sc.recordPanic(th)
		return
	}
	th.status = thIdle
	switch th.opKind {
	case 1:
		th.hstate = 1
	case 2:
		for _, r := range th.recs {
			sc.accepted[r] = true
		}
	case 4:
		th.hstate = 2
	}
	sc.tok("f" + sc.who(th) + sc.early(th.doneOp))
}

func (sc *c17Scenario) recordPanic(th *c17Thread) {
	site := 0
	switch {
	case strings.Contains(th.panicVal, "index out of range") && th.opKind == 1:
		site = 1
	case strings.Contains(th.panicVal, "nil pointer") || strings.Contains(th.panicVal, "invalid memory address"):
		site = th.opKind // 2 Accept, 3 Tick, 4 Close
	default:
		site = 9
		sc.failNotes = append(sc.failNotes, "panic: "+th.panicVal)
	}
	sc.mu.Lock()
	sc.log = append(sc.log, c17Obs{kind: 'x', t: th.id, site: site})
	sc.mu.Unlock()
}

func (sc *c17Scenario) doStart(t int, kind int, arg int, auto bool) bool {
	if t < 0 || t >= sc.nthr {
		sc.tok("k")
		return false
	}
	th := sc.threads[t]
	needsLock := kind != 1 || sc.lk
	hok := (kind == 1 && th.hstate == 0) || (kind != 1 && th.hstate == 1)
	if th.status != thIdle || !hok || (needsLock && sc.rlState == rlWant) {
		sc.tok("k")
		return false
	}
	th.auto = auto
	th.opKind = kind
	th.recs = nil
	switch kind {
	case 1:
		th.num = arg
		num := sc.realNum(arg)
		addr := fmt.Sprintf("c%d", t)
		sc.launch(th, func() {
			h := sc.env.orc.NewSink(addr, num)
			sc.mu.Lock()
			th.handle = h
			sc.mu.Unlock()
		})
	case 2:
		buf := make([]*base.LogRecord, 0, arg)
		for i := 0; i < arg; i++ {
			buf = append(buf, &base.LogRecord{RawLength: int(sc.nextRec)})
			th.recs = append(th.recs, sc.nextRec)
			sc.nextRec++
		}
		h := th.handle
		sc.launch(th, func() { h.Accept(buf) })
	case 3:
		h := th.handle
		sc.launch(th, func() { h.Tick() })
	case 4:
		h := th.handle
		sc.launch(th, func() { h.Close() })
	}
	if needsLock && sc.simWriter {
		th.status = thBlocked
		sc.pend = append(sc.pend, th)
		sc.tok("b" + sc.who(th))
		return true
	}
	sc.afterBegin(th)
	return true
}

func (sc *c17Scenario) doReload(kind int, auto bool) {
	if sc.rlState != rlIdle {
		sc.tok("k")
		return
	}
	th := sc.rl
	th.auto = auto
	if kind != 0 {
		sc.sawFailed = true
	}
	sc.mu.Lock()
	sc.rlOK = kind == 0
	sc.rlKind = kind
	sc.rlCallsDuring = 0
	sc.mu.Unlock()
	ok := kind == 0
	before := sc.env.orc.VerifPeekDownstream()
	sc.launch(th, func() {
		s0, f0 := run.VerifReloadCounts()
		sc.env.orc.VerifReload()
		s1, f1 := run.VerifReloadCounts()
		after := sc.env.orc.VerifPeekDownstream()
		sc.mu.Lock()
		defer sc.mu.Unlock()
		if !ok {
			// the property's oracle for a failed reload: same downstream, no downstream call, failure +1, success +0
			if after != before || sc.rlCallsDuring != 0 || f1 != f0+1 || s1 != s0 {
				sc.failedReloadOK = false
				sc.failNotes = append(sc.failNotes, fmt.Sprintf("failed reload: same downstream=%v, downstream calls=%d, failures +%v, successes +%v",
					after == before, sc.rlCallsDuring, f1-f0, s1-s0))
			}
		} else if s1 != s0+1 || f1 != f0 {
			sc.failNotes = append(sc.failNotes, fmt.Sprintf("successful reload: failures +%v, successes +%v", f1-f0, s1-s0))
			sc.failedReloadOK = false
		}
	})
	switch sc.await(th) {
	case "park":
		th.status = thParked
		sc.rlState = rlInit
		sc.tok("pR" + th.gate)
	case "done":
		sc.tok("fR" + sc.early(th.doneOp))
	default:
		sc.tok("HR")
	}
}

// releaseConn releases the gate connection goroutine th is parked at; false = not parked
func (sc *c17Scenario) releaseConn(th *c17Thread) bool {
	if th.status != thParked {
		return false
	}
	if th.opKind == 1 && !sc.lk {
		// original NewSink: downstream.NewSink returns, then RLock()
		if sc.rlState == rlWant {
			return false
		}
		th.release <- struct{}{}
		if sc.simWriter {
			th.status = thBlockedStore
			sc.store = append(sc.store, th)
			sc.tok("w" + sc.who(th))
			return true
		}
	} else {
		th.release <- struct{}{}
	}
	switch sc.await(th) {
	case "done":
		sc.finishConn(th, th.inLock)
	case "park":
		// a second park inside one API call: not in the model
		sc.tok("P" + sc.who(th) + th.gate)
	default:
		sc.tok("H" + sc.who(th))
		th.status = thDead
	}
	return true
}

func (sc *c17Scenario) afterReloadRuns() {
	th := sc.rl
	switch sc.await(th) {
	case "park":
		th.status = thParked
		sc.rlState = rlPost
		sc.simWriter = true
		sc.tok("pR" + th.gate + sc.early(th.parkOp))
	case "done":
		th.status = thIdle
		sc.rlState = rlIdle
		sc.simWriter = false
		if th.panicVal != "" {
			sc.tok("xR")
			sc.failNotes = append(sc.failNotes, "reload panicked: "+th.panicVal)
			sc.mu.Lock()
			sc.log = append(sc.log, c17Obs{kind: 'x', t: c17ReloadWho, site: 8})
			sc.mu.Unlock()
		} else {
			sc.tok("fR" + sc.early(th.doneOp))
		}
	default:
		sc.tok("HR")
		th.status = thDead
		sc.rlState = rlIdle
	}
}

func (sc *c17Scenario) releaseReload() bool {
	th := sc.rl
	if th.status != thParked {
		return false
	}
	switch sc.rlState {
	case rlInit:
		th.release <- struct{}{}
		if sc.rlOK {
			th.status = thBlocked
			sc.rlState = rlWant
			sc.tok("wR")
			return true
		}
		sc.afterReloadRuns()
		return true
	case rlPost:
		th.release <- struct{}{}
		sc.afterReloadRuns()
		return true
	}
	return false
}

func (sc *c17Scenario) settle() {
	for iter := 0; iter < 1000 && !sc.hang; iter++ {
		// A: the reload goroutine takes the write lock
		if sc.rlState == rlWant && sc.simReaders == 0 {
			sc.afterReloadRuns()
			continue
		}
		// B: goroutines blocked at RLock()
		fired := false
		if !sc.simWriter && sc.rlState != rlWant {
			pend := sc.pend
			sc.pend = nil
			for _, th := range pend {
				sc.afterBegin(th)
				fired = true
			}
			store := sc.store
			sc.store = nil
			for _, th := range store {
				switch sc.await(th) {
				case "done":
					sc.finishConn(th, false)
				default:
					sc.tok("H" + sc.who(th))
					th.status = thDead
				}
				fired = true
			}
		}
		if fired {
			continue
		}
		// C: one parked auto goroutine
		if sc.rl.auto && sc.releaseReload() {
			continue
		}
		released := false
		for _, th := range sc.threads {
			if th.auto && sc.releaseConn(th) {
				released = true
				break
			}
		}
		if !released {
			break
		}
	}
	// goroutines that must stay blocked now: give a wrong implementation the chance to let them through
	if len(sc.pend) > 0 || len(sc.store) > 0 || (sc.rlState == rlWant && sc.simReaders > 0) {
		for t0 := time.Now(); time.Since(t0) < c17SettleSpin; {
			runtime.Gosched()
		}
	}
}

func (sc *c17Scenario) applyOp(code, a, b int, auto bool) {
	sc.mu.Lock()
	sc.opIndex++
	sc.mu.Unlock()
	sc.tok("/")
	switch code {
	case 1, 2, 3, 4:
		sc.doStart(a, code, b, auto)
	case 5:
		sc.doReload(a, auto)
	case 6:
		ok := false
		if a == c17ReloadWho {
			ok = sc.releaseReload()
		} else if a >= 0 && a < sc.nthr {
			ok = sc.releaseConn(sc.threads[a])
		}
		if !ok {
			sc.tok("k")
		}
	case 7:
		if a == c17ReloadWho {
			sc.rl.auto = true
			sc.tok("u")
		} else if a >= 0 && a < sc.nthr {
			sc.threads[a].auto = true
			sc.tok("u")
		} else {
			sc.tok("u")
		}
	default:
		sc.tok("k")
	}
	sc.settle()
}

func (sc *c17Scenario) drain() {
	sc.mu.Lock()
	sc.opIndex++
	sc.mu.Unlock()
	sc.tok("/")
	for _, th := range sc.threads {
		th.auto = true
	}
	sc.rl.auto = true
	sc.settle()
}

// abort lets every goroutine of a scenario that hung run through all gates
func (sc *c17Scenario) abort() {
	sc.mu.Lock()
	sc.aborted = true
	sc.mu.Unlock()
	for _, th := range append(append([]*c17Thread{}, sc.threads...), sc.rl) {
		for i := 0; i < 3; i++ {
			select {
			case th.release <- struct{}{}:
			default:
			}
		}
	}
}

// ---------- projection and oracle ----------

func (sc *c17Scenario) render() (string, []Fail) {
	env := sc.env
	sc.mu.Lock()
	defer sc.mu.Unlock()
	var parts []string
	// L
	var ls []string
	dead, panics, oobPanic := false, false, false
	for _, o := range sc.log {
		bang := ""
		if !o.alive && o.kind != 'x' {
			bang = "!"
			dead = true
		}
		switch o.kind {
		case 'h':
			ls = append(ls, fmt.Sprintf("h%dr%ds%dg%d%s", o.t, o.rec, o.sink, o.gen, bang))
		case 'd':
			ls = append(ls, fmt.Sprintf("dr%ds%dg%d%s", o.rec, o.sink, o.gen, bang))
		case 'x':
			ls = append(ls, fmt.Sprintf("x%d@%d", o.t, o.site))
			if o.site >= 2 {
				panics = true
			} else {
				oobPanic = true
			}
		}
	}
	succ, fail := run.VerifReloadCounts()
	curObj := env.orc.VerifPeekDownstream()
	cur := "?"
	var curGen *c17Orch
	for _, g := range sc.gens {
		if base.Orchestrator(g) == curObj {
			cur = fmt.Sprint(g.id)
			curGen = g
		}
	}
	var gs strings.Builder
	for _, g := range sc.gens {
		if g.shut {
			gs.WriteByte('1')
		} else {
			gs.WriteByte('0')
		}
	}
	sinkIdx := map[base.BufferReceiverSink]int{}
	var ks []string
	for _, s := range sc.sinks {
		sinkIdx[s] = s.id
		cl := "o"
		if s.closed {
			cl = "c"
		}
		ks = append(ks, fmt.Sprintf("%d.%d.%s.%s.%d", s.gen.id, s.num, strings.TrimPrefix(s.addr, "c"), cl, len(s.pending)))
	}
	var bs []string
	tracked := map[int]bool{}
	for n := 0; n < sc.maxn; n++ {
		o := env.orc.VerifPeekSink(base.ClientNumber(n))
		if o == nil {
			bs = append(bs, "-")
		} else if id, ok := sinkIdx[o]; ok {
			bs = append(bs, fmt.Sprint(id))
			if sc.sinks[id].num == n {
				tracked[id] = true
			}
		} else {
			bs = append(bs, "?")
		}
	}
	var hs []string
	for _, th := range sc.threads {
		h := "noc"[th.hstate : th.hstate+1]
		p := "i"
		switch th.status {
		case thParked:
			p = "p"
		case thBlocked:
			p = "b"
		case thBlockedStore:
			p = "w"
		case thDead:
			p = "d"
		}
		hs = append(hs, h+p)
	}
	// ---- the property's oracle (independent of the model): every record passed to a ReloadableSink.Accept
	// reaches exactly once a downstream that is alive at that moment; nothing panics; a failed reload has no effect
	var fails []Fail
	delivered := map[int64]int{}
	handed := map[int64]int{}
	var deadRecs []string
	for _, o := range sc.log {
		switch o.kind {
		case 'h':
			handed[o.rec]++
			if !o.alive {
				deadRecs = append(deadRecs, fmt.Sprintf("record %d handed to sink %d of generation %d (closed or shut down)", o.rec, o.sink, o.gen))
			}
		case 'd':
			delivered[o.rec]++
			if !o.alive {
				deadRecs = append(deadRecs, fmt.Sprintf("record %d flushed into generation %d after its Shutdown", o.rec, o.gen))
			}
		}
	}
	pendingLive := map[int64]int{}
	for _, s := range sc.sinks {
		live := !s.closed && !s.gen.shut && s.gen == curGen && tracked[s.id]
		if live {
			for _, r := range s.pending {
				pendingLive[r]++
			}
		}
	}
	var lost, dup []string
	var ids []int64
	for r := int64(1); r < sc.nextRec; r++ {
		ids = append(ids, r)
	}
	sort.Slice(ids, func(i, j int) bool { return ids[i] < ids[j] })
	lostOrphan := false
	for _, r := range ids {
		if !sc.accepted[r] && !sc.panicked[r] {
			continue // the Accept call never completed (scenario ended while it was blocked)
		}
		n := delivered[r] + pendingLive[r]
		if n == 0 {
			lost = append(lost, fmt.Sprint(r))
			if !sc.panicked[r] {
				lostOrphan = true
			}
		} else if n > 1 || handed[r] > 1 {
			dup = append(dup, fmt.Sprint(r))
		}
	}
	prefix := "c17:"
	desc := sc.describe()
	if sc.hang && !sc.sawFailed {
		fails = append(fails, Fail{"c17:hang", "a goroutine neither parked nor returned within the timeout: " + desc})
	}
	if (sc.hang || sc.stuck) && sc.sawFailed {
		fails = append(fails, Fail{"c17:stuck-after-failed-reload",
			"after a reload with an invalid / incompatible configuration the orchestrator's lock is never released (calls block for ever): " + desc})
	} else if sc.stuck {
		fails = append(fails, Fail{"c17:lock-leaked", "no call is in progress but the orchestrator's write lock cannot be obtained: " + desc})
	}
	if len(deadRecs) > 0 {
		fails = append(fails, Fail{prefix + "dead-pipeline", deadRecs[0] + ": " + desc})
	}
	if len(lost) > 0 && (lostOrphan || !panics) {
		fails = append(fails, Fail{prefix + "lost", "records " + strings.Join(lost, ",") + " accepted but neither delivered nor buffered in a live sink: " + desc})
	}
	if len(dup) > 0 {
		fails = append(fails, Fail{prefix + "duplicate", "records " + strings.Join(dup, ",") + " delivered more than once: " + desc})
	}
	if panics {
		fails = append(fails, Fail{prefix + "panic-nil-sink", "nil sink dereference (records of the call lost: " + strings.Join(lost, ",") + "): " + desc})
	}
	for _, n := range sc.failNotes {
		if strings.HasPrefix(n, "failed reload") || strings.HasPrefix(n, "successful reload") {
			fails = append(fails, Fail{"c17:reload-accounting", n + ": " + desc})
		} else {
			fails = append(fails, Fail{prefix + "panic-other", n + ": " + desc})
		}
	}
	if sc.reuse {
		// the schedule itself gave a client number to a second sink while the first was still open: the assumption
		// of reloadable.go on its callers is violated (the listener never does this, see kind 1 and
		// C17_listener_respects_unique_numbers); the property demands nothing, the case only compares model and code
		fails = nil
	}
	class := "ok"
	switch {
	case sc.hang:
		class = "hang"
	case sc.stuck:
		class = "stuck"
	case panics:
		class = "panic"
	case dead:
		class = "dead"
	case lostOrphan || c17Orphans(sc, curGen, tracked):
		class = "lost"
	case oobPanic:
		class = "oob"
	}
	parts = append(parts,
		"T="+strings.Join(sc.tokens, ","),
		"L="+strings.Join(ls, ","),
		fmt.Sprintf("F=%d", int(fail-sc.fail0)),
		fmt.Sprintf("S=%d", int(succ-sc.succ0)),
		"C="+cur,
		"G="+gs.String(),
		"K="+strings.Join(ks, ","),
		"B="+strings.Join(bs, ","),
		"H="+strings.Join(hs, ","))
	return class + ":" + strings.Join(parts, ";"), fails
}

// c17Orphans: some sink still buffers records although it is not the live, tracked sink of its slot
func c17Orphans(sc *c17Scenario, curGen *c17Orch, tracked map[int]bool) bool {
	for _, s := range sc.sinks {
		if len(s.pending) > 0 && !(!s.closed && !s.gen.shut && s.gen == curGen && tracked[s.id]) {
			return true
		}
	}
	return false
}

func (sc *c17Scenario) describe() string {
	return "schedule " + strings.Join(sc.tokens, ",")
}

// c17Run executes one scenario case on the real code
func c17Run(c *Case) (string, []Fail) {
	switch c.Kind {
	case 0, 9:
		return c17RunScenario(c)
	case 1:
		return c17RunListenerTrace(c)
	case 2:
		return c17RunE2E(c)
	case 3:
		return c17RunRecover(c)
	}
	return "badcase", nil
}

// c17GiveUp: too many scenarios hung; the generator emits nothing more (the hangs are reported as failures)
func c17GiveUp() bool { return c17env != nil && c17env.nbad >= c17MaxHangs }

func c17RunScenario(c *Case) (string, []Fail) {
	env := c17Setup()
	if len(c.Z) < 2 {
		return "badcase", nil
	}
	nthr, maxn := int(c.Z[0]), int(c.Z[1])
	if nthr < 0 || nthr > 16 || maxn < 0 || maxn > 16 {
		return "badcase", nil
	}
	sc := c17NewScenario(env, nthr, maxn)
	env = sc.env
	ops := c.Z[2:]
	for i := 0; i+3 < len(ops) && !sc.hang; i += 4 {
		sc.applyOp(int(ops[i]), int(ops[i+1]), int(ops[i+2]), ops[i+3] != 0)
	}
	if !sc.hang {
		sc.drain()
	}
	if !sc.hang && sc.quiet() {
		// no call is in progress: the write lock must be free (a reload that returned with the lock held would
		// block every later Accept / Tick / Close / NewSink / reload for ever)
		cur := env.orc.VerifPeekDownstream()
		if !c17LockWithDeadline(env, func() { env.orc.VerifReset(cur, 0) }) {
			sc.stuck = true
		}
	}
	out, fails := sc.render()
	if sc.hang || sc.stuck {
		// the orchestrator may be stuck behind its lock: let everything run out and use a new one
		sc.abort()
		time.Sleep(20 * time.Millisecond)
		c17ReplaceEnv(env)
	}
	return out, fails
}

// quiet: no API call and no reload is in progress
func (sc *c17Scenario) quiet() bool {
	if sc.rlState != rlIdle || len(sc.pend) > 0 || len(sc.store) > 0 {
		return false
	}
	for _, th := range sc.threads {
		if th.status != thIdle && th.status != thDead {
			return false
		}
	}
	return sc.rl.status == thIdle || sc.rl.status == thDead
}

// c17ProbeVariant finds out whether NewSink calls downstream.NewSink while holding the read lock (current code)
// or before taking it (the code before the fix): with a NewSink parked inside downstream.NewSink, does a
// reload get past Lock()?  Only the harness' expectations (which goroutine must be waited for) depend on it.
func c17ProbeVariant(env *c17Env) bool {
	env.lk = true
	sc := c17NewScenario(env, 1, 2)
	sc.applyOp(1, 0, 0, false) // New t0 n0, parked in downstream.NewSink
	th := sc.rl
	sc.mu.Lock()
	sc.rlOK = true
	sc.mu.Unlock()
	env = sc.env
	sc.launch(th, func() { env.orc.VerifReload() })
	// parked in initiate (bounded wait: a reload that takes the lock first never gets there; the scenarios will tell)
	reached := false
	for t0 := time.Now(); time.Since(t0) < 2*time.Second; time.Sleep(time.Millisecond) {
		sc.mu.Lock()
		p := th.parks > th.seenPark
		if p {
			th.seenPark++
		}
		sc.mu.Unlock()
		if p {
			reached = true
			break
		}
	}
	if !reached {
		sc.abort()
		time.Sleep(100 * time.Millisecond)
		return true
	}
	th.release <- struct{}{}
	// does it reach the Shutdown gate (no sink in the table yet) although NewSink is in flight?
	deadline := time.Now().Add(300 * time.Millisecond)
	passed := false
	for time.Now().Before(deadline) {
		sc.mu.Lock()
		p := th.parks > th.seenPark
		sc.mu.Unlock()
		if p {
			passed = true
			break
		}
		time.Sleep(2 * time.Millisecond)
	}
	// let everything run out
	sc.abort()
	for i := 0; i < 200; i++ {
		sc.mu.Lock()
		d := th.done > 0 && sc.threads[0].done > 0
		sc.mu.Unlock()
		if d {
			break
		}
		time.Sleep(5 * time.Millisecond)
	}
	return !passed
}

func init() { register(&Prop{ID: "C17", Gen: c17Gen, Run: c17Run, Child: c17Child}) }
