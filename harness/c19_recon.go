package main

// c19_recon.go — kind 2 of C19: what the wrappers observed for one (generation, pipeline, output) is turned
// into a run of the model's system machine (buffer + client, coq/Model/Metrics.v section F).  The observed
// events keep their order; the hidden steps (feeder moves, acknowledger takes, collectLeftovers) are inserted
// where the code must have made them.  The model checks that the result IS a run (every step enabled) and
// computes every counter; the implementation side prints the gathered counters.
//
// Hidden choices the wrappers cannot see are resolved from the gathered values and then validated by the
// model: how many accepted chunks were stored unloaded (input_chunks_total{persistent}), and whether the
// last completely sent chunk of a session reached the acknowledger's channel before the session ended
// (forwarded_chunks_total).

import (
	"fmt"
	"sort"
	"strings"
)

type c19Chunk struct {
	ID        string
	Size      int
	Recovered bool
	Bad       int // recovered entry the feeder cannot deliver: 1 = zero-length file (corrupted), 2 = unreadable (load fails)
}

type c19Recon struct {
	po      *c19PipeObs
	chunks  []c19Chunk
	index   map[string]int
	nrec    int // recovered chunks (enqueued at start)
	ev      []int64
	problem string

	// simulated state
	nextAccept int
	queue      []int
	unloaded   map[int]bool
	spillLeft  int
	phase      int // cp*
	rec        bool
	left       []int
	last       int
	achan      []int
	pmap       map[int]bool
	acker      int // 0 run, 1 wait, 2 ended
	stopDone   bool
	ambQueued  int // number of ambiguous "sent but session ended" chunks to resolve as queued
	ambSeen    int
	certainQ   int
	firstSend  map[int]int // chunk -> index of its first send event
	afterFiles map[string]bool
	closedConn map[int]bool
	collectNext int
	badDrops    int // recovered entries dropped by the feeder (zero-length or unreadable)
	ackcap      int
	window      []int // chunks put into the output channel at shutdown for takes that follow the stop
	stopSeq     int   // trace sequence number of the stop request of this generation
}

const (
	cpIdle = iota
	cpOpening
	cpRecovery
	cpNormal
	cpSending
	cpSent
	cpCollect
	cpRetry
	cpFinal
	cpStopped
)

func (rc *c19Recon) emit(xs ...int64) { rc.ev = append(rc.ev, xs...) }

func (rc *c19Recon) fail(format string, a ...interface{}) {
	if rc.problem == "" {
		rc.problem = fmt.Sprintf(format, a...)
	}
}

func c19b2i(b bool) int64 {
	if b {
		return 1
	}
	return 0
}

// c19BuildChunks: chunk table = recovered files (sorted) then new chunks in id (= creation) order.
func c19BuildChunks(po *c19PipeObs, qcap int) ([]c19Chunk, map[string]int, int) {
	var chunks []c19Chunk
	index := map[string]int{}
	before := po.Before
	if len(before) > qcap {
		before = before[:qcap]
	}
	for _, f := range before {
		index[f.ID] = len(chunks)
		c := c19Chunk{ID: f.ID, Size: f.Size, Recovered: true}
		switch {
		case f.Unreadable:
			c.Bad = 2
		case f.Size == 0:
			c.Bad = 1
		}
		chunks = append(chunks, c)
	}
	nrec := len(chunks)
	created := map[string]int{}
	for _, e := range po.Consumer.Events() {
		switch e.Kind {
		case cwSendBegin, cwConsumed, cwLeftover:
			if _, ok := index[e.ID]; !ok {
				created[e.ID] = e.Size
			}
		}
	}
	for _, f := range po.After {
		if _, ok := index[f.ID]; !ok {
			if _, ok2 := created[f.ID]; !ok2 {
				created[f.ID] = f.Size
			}
		}
	}
	ids := make([]string, 0, len(created))
	for id := range created {
		ids = append(ids, id)
	}
	sort.Strings(ids)
	for _, id := range ids {
		index[id] = len(chunks)
		chunks = append(chunks, c19Chunk{ID: id, Size: created[id]})
	}
	return chunks, index, nrec
}

func (rc *c19Recon) accept(i int) {
	spill := rc.spillLeft > 0
	if spill {
		rc.spillLeft--
		rc.unloaded[i] = true
	}
	rc.emit(2, int64(i), c19b2i(spill), 1)
	rc.queue = append(rc.queue, i)
}

// dropBadHeads: the feeder receives a recovered entry it cannot deliver: a zero-length file is "corrupted" (removed,
// counted dropped), an unreadable one fails to load (counted dropped, stays where it is)
func (rc *c19Recon) dropBadHeads() {
	for len(rc.queue) > 0 && rc.chunks[rc.queue[0]].Bad != 0 {
		bad := rc.chunks[rc.queue[0]].Bad
		rc.queue = rc.queue[1:]
		rc.emit(3)
		if bad == 1 {
			rc.emit(4, 1, 1)
		} else {
			rc.emit(4, 0, 1)
		}
		rc.badDrops++
	}
}

// moveToWindow pushes chunk i (and nothing else) through the feeder.
func (rc *c19Recon) moveToWindow(i int) {
	rc.dropBadHeads()
	for rc.nextAccept <= i {
		if rc.nextAccept >= rc.nrec {
			rc.accept(rc.nextAccept)
		}
		rc.nextAccept++
	}
	if len(rc.queue) == 0 || rc.queue[0] != i {
		rc.fail("chunk %s was taken by the consumer out of queue order (queue head %v)", rc.chunks[i].ID, rc.queue)
	}
	if len(rc.queue) > 0 {
		rc.queue = rc.queue[1:]
	}
	rc.emit(3)
	if rc.unloaded[i] {
		rc.emit(4, 1, 1)
	}
	rc.emit(5)
}

// ensureStop emits the shutdown of the buffer: remaining accepts, chunks the consumer will still take go to
// the window, Destroy, end of the feeder loop, saving of the queue, stop signal for the client.
func (rc *c19Recon) ensureStop(evIdx int) {
	if rc.stopDone {
		return
	}
	rc.stopDone = true
	rc.dropBadHeads()
	// chunks first sent after this point were still taken from the (closed) output channel; everything queued
	// before them was in the output channel as well (the feeder is FIFO) and is either taken or saved from there
	maxLater := -1
	for ch, at := range rc.firstSend {
		if at > evIdx && ch > maxLater {
			maxLater = ch
		}
	}
	for maxLater >= 0 && (rc.nextAccept <= maxLater || (len(rc.queue) > 0 && rc.queue[0] <= maxLater)) {
		next := rc.nextAccept
		if len(rc.queue) > 0 {
			next = rc.queue[0]
		}
		rc.moveToWindow(next)
		rc.window = append(rc.window, next)
	}
	for rc.nextAccept < len(rc.chunks) {
		if rc.nextAccept >= rc.nrec {
			rc.accept(rc.nextAccept)
		}
		rc.nextAccept++
	}
	rc.emit(6)
	if len(rc.queue) == 0 {
		rc.emit(8)
	} else {
		// the feeder receives the next chunk, loads it, and its select takes the stop signal: lastInputChunk
		last := rc.queue[0]
		rc.emit(3)
		if rc.unloaded[last] {
			rc.emit(4, 1, 1)
		}
		rc.emit(7)
		for _, ch := range rc.queue[1:] {
			rc.emit(9, c19b2i(rc.afterFiles[rc.chunks[ch].ID]))
		}
		rc.emit(10, c19b2i(rc.afterFiles[rc.chunks[last].ID]))
	}
	rc.queue = nil
	rc.emit(23)
}

// drainWindow: what is left in the closed output channel is saved by the feeder
func (rc *c19Recon) drainWindow() {
	for _, w := range rc.window {
		rc.emit(11, c19b2i(rc.afterFiles[rc.chunks[w].ID]))
	}
	rc.window = nil
}

func (rc *c19Recon) resolvePending() {
	// the chunk in phase cpSent reached ackerChan
	if rc.phase == cpSent {
		if len(rc.achan) >= rc.ackcap && rc.acker == 0 && len(rc.achan) > 0 {
			// ackerChan is full: the acknowledger must have received its head before the send could be queued
			rc.emit(46)
			rc.pmap[rc.achan[0]] = true
			rc.achan = rc.achan[1:]
			rc.acker = 1
		}
		rc.emit(43)
		rc.achan = append(rc.achan, rc.last)
		rc.last = -1
		if rc.rec {
			rc.phase = cpRecovery
		} else {
			rc.phase = cpNormal
		}
	}
}

func (rc *c19Recon) ackerTake() {
	if rc.acker != 0 {
		return
	}
	if len(rc.achan) == 0 && rc.phase == cpSent {
		rc.certainQ++
		rc.resolvePending()
	}
	if len(rc.achan) == 0 {
		rc.fail("acknowledger read an ACK although no chunk had been passed to it")
		return
	}
	rc.emit(46)
	rc.pmap[rc.achan[0]] = true
	rc.achan = rc.achan[1:]
	rc.acker = 1
}

// endSession: the observed stream shows that the session is over (next connection attempt, hand-back or finish).
func (rc *c19Recon) endSession(evIdx int, stopping bool) {
	switch rc.phase {
	case cpSent:
		// without a stop the session can only have ended here because the select after the send took
		// ackerEnded (a queued chunk would leave the sender waiting for the next chunk, and the session would
		// end with a failed send or ping, which is observed).  With a stop it is ambiguous: did the chunk
		// reach ackerChan before the select saw the stop?
		if stopping {
			rc.ambSeen++
			if rc.ambSeen <= rc.ambQueued {
				rc.resolvePending()
				rc.endSession(evIdx, stopping)
				return
			}
		}
		if !stopping {
			if rc.acker != 2 {
				rc.fail("session ended after a completed send without stop and with a live acknowledger")
				return
			}
			rc.emit(45)
			rc.phase = cpCollect
			rc.collectNext = 1
		} else {
			rc.ensureStop(evIdx)
			rc.emit(44)
			rc.phase = cpCollect
			rc.collectNext = 0
		}
	case cpRecovery:
		if !stopping {
			rc.fail("session ended in the recovery stage without a stop and without a failed send")
			return
		}
		rc.ensureStop(evIdx)
		rc.emit(38)
		rc.phase = cpCollect
		rc.collectNext = 0
	case cpNormal:
		if !stopping {
			rc.fail("session ended in the normal stage without a stop and without a failed send")
			return
		}
		rc.ensureStop(evIdx)
		rc.drainWindow()
		rc.emit(24)
		rc.phase = cpCollect
		rc.collectNext = 0
	case cpSending:
		rc.fail("SendChunk never returned")
		return
	}
	if rc.phase != cpCollect {
		return
	}
	switch rc.acker {
	case 1:
		rc.emit(50) // the acknowledger never came back from ReadChunkAck: "BUG" branch
		for k := range rc.pmap {
			delete(rc.pmap, k)
		}
	case 0:
		rc.emit(48, 49)
	default:
		rc.emit(49)
	}
	var nl []int
	nl = append(nl, rc.left...)
	nl = append(nl, rc.achan...)
	for k := range rc.pmap {
		nl = append(nl, k)
	}
	if rc.last >= 0 {
		nl = append(nl, rc.last)
	}
	sort.Ints(nl)
	rc.left, rc.achan, rc.pmap, rc.last, rc.acker = nl, nil, map[int]bool{}, -1, 2
	switch rc.collectNext {
	case 0:
		rc.phase = cpFinal
	case 1:
		rc.phase = cpRetry
	default:
		rc.phase = cpIdle
	}
}

// toFinal brings the client to the final stage (stop observed outside a session).
func (rc *c19Recon) toFinal(evIdx int) {
	rc.endSession(evIdx, true)
	switch rc.phase {
	case cpRetry:
		rc.ensureStop(evIdx)
		rc.emit(35)
		rc.phase = cpFinal
	case cpIdle:
		// run() loop: the next runSession starts opening and sees the stop
		rc.ensureStop(evIdx)
		rc.emit(30, 32)
		rc.phase = cpFinal
	case cpOpening:
		rc.ensureStop(evIdx)
		rc.emit(32)
		rc.phase = cpFinal
	}
}

// c19Reconstruct returns the zargs tail (configuration, chunk table, events) of the kind-2 case.
func c19Reconstruct(po *c19PipeObs, params e2eParams, ambQueued int, stopSeq int) (*c19Recon, []int64) {
	chunks, index, nrec := c19BuildChunks(po, params.QueueLen)
	rc := &c19Recon{po: po, chunks: chunks, index: index, nrec: nrec, unloaded: map[int]bool{}, pmap: map[int]bool{},
		last: -1, acker: 2, firstSend: map[int]int{}, afterFiles: map[string]bool{}, closedConn: map[int]bool{}, ambQueued: ambQueued, ackcap: params.AckPending, stopSeq: stopSeq}
	for _, f := range po.After {
		rc.afterFiles[f.ID] = true
	}
	evs := po.Consumer.Events()
	for i, e := range evs {
		if e.Kind == cwSendBegin {
			if ch, ok := index[e.ID]; ok {
				if _, seen := rc.firstSend[ch]; !seen {
					rc.firstSend[ch] = i
				}
			}
		}
		if e.Kind == cwClose {
			rc.closedConn[e.Conn] = true
		}
	}
	// recovered chunks are enqueued (unloaded) before anything else
	for i := 0; i < nrec; i++ {
		rc.emit(1, int64(i))
		rc.queue = append(rc.queue, i)
		rc.unloaded[i] = true
	}
	rc.nextAccept = nrec
	rc.dropBadHeads() // the feeder starts with the head of the queue
	spill := int(po.Buf["input_chunks_total/persistent"]) - nrec
	if spill < 0 {
		spill = 0
	}
	if spill > len(chunks)-nrec {
		spill = len(chunks) - nrec
	}
	rc.spillLeft = spill
	lastAck := -1
	for i, e := range evs {
		if rc.problem != "" || rc.phase == cpStopped {
			break
		}
		if rc.phase == cpFinal && (e.Kind == cwOpenBegin || e.Kind == cwOpenOk || e.Kind == cwOpenFail) {
			// the goroutine of the last runSession logs its connection attempt after the select took the stop signal
			continue
		}
		switch e.Kind {
		case cwOpenBegin:
			rc.endSession(i, false)
			if rc.phase == cpRetry {
				rc.emit(34)
				rc.phase = cpIdle
			}
			if rc.phase != cpIdle {
				rc.fail("connection attempt in phase %d", rc.phase)
			}
			rc.emit(30)
			rc.phase = cpOpening
		case cwOpenFail:
			rc.emit(31)
			rc.phase = cpRetry
		case cwOpenOk:
			if rc.closedConn[e.Conn] {
				rc.emit(33)
				rc.phase = cpRecovery
				rc.acker = 0
				rc.achan, rc.pmap = nil, map[int]bool{}
			} else {
				// the connection was never used nor closed: the select took the stop signal
				rc.ensureStop(i)
				rc.emit(32)
				rc.phase = cpFinal
			}
		case cwSendBegin:
			ch, ok := index[e.ID]
			if !ok {
				rc.fail("unknown chunk %s sent", e.ID)
				break
			}
			if rc.phase == cpSent {
				rc.certainQ++
				rc.resolvePending()
			}
			if rc.phase == cpRecovery && len(rc.left) > 0 {
				if rc.left[0] != ch {
					rc.fail("leftover re-sent out of order: %s, expected %s", e.ID, chunks[rc.left[0]].ID)
				}
				rc.left = rc.left[1:]
				rc.emit(36)
				rc.rec = true
			} else {
				if rc.phase == cpRecovery {
					rc.emit(37)
					rc.phase = cpNormal
				}
				if rc.phase != cpNormal {
					rc.fail("chunk %s sent in phase %d", e.ID, rc.phase)
					break
				}
				if !rc.stopDone {
					head := rc.nextAccept
					if len(rc.queue) > 0 {
						head = rc.queue[0]
					}
					if head == ch || e.Seq < rc.stopSeq {
						rc.moveToWindow(ch)
					} else {
						// taken after the stop request and not the oldest queued chunk: the output channel was
						// already closed and the feeder's saveEverything took the older chunks out of it
						rc.ensureStop(i - 1)
					}
				}
				if rc.stopDone {
					// after the stop the feeder's saveEverything and the consumer drain the output channel together
					for len(rc.window) > 0 && rc.window[0] != ch {
						rc.emit(11, c19b2i(rc.afterFiles[rc.chunks[rc.window[0]].ID]))
						rc.window = rc.window[1:]
					}
					if len(rc.window) == 0 {
						rc.fail("chunk %s taken after the stop was not in the output channel", e.ID)
						break
					}
					rc.window = rc.window[1:]
				}
				rc.emit(20)
				rc.rec = false
			}
			rc.last = ch
			rc.phase = cpSending
		case cwSendOk:
			rc.emit(42)
			rc.phase = cpSent
		case cwSendFail:
			rc.emit(41)
			rc.phase = cpCollect
			rc.collectNext = 1
		case cwPingOk, cwPingFail:
			// a ping is only sent from the select of the normal stage: whatever was sent before has been queued
			if rc.phase == cpSent {
				rc.certainQ++
				rc.resolvePending()
			}
			if rc.phase == cpRecovery && len(rc.left) == 0 {
				rc.emit(37)
				rc.phase = cpNormal
			}
			if rc.phase != cpNormal {
				rc.fail("ping in phase %d", rc.phase)
				break
			}
			if e.Kind == cwPingFail {
				rc.emit(40)
				rc.phase = cpCollect
				rc.collectNext = 1
			}
		case cwAckOk:
			rc.ackerTake()
			id := int64(-1)
			lastAck = -1
			if e.ID != "" {
				if ch, ok := index[e.ID]; ok {
					id = int64(ch)
				} else {
					id = int64(len(chunks)) // an id the agent does not know
				}
			}
			var target int = -1
			if id == -1 {
				// empty id designates the chunk the acknowledger has just taken: the last one added to pmap
				rc.fail("empty ACK id is not produced by the fake upstream")
			} else if rc.pmap[int(id)] {
				target = int(id)
			}
			if target < 0 {
				// an ACK whose id is not pending: since fix b537046 the acknowledger ends the session exactly as it
				// does after a failed ACK read (OnError, abortConn, return with the pending map as its snapshot);
				// the model has no separate event for it: it is its AckErr step (47). Before this mapping the
				// reconstruction kept the acknowledger alive here, and a session that the acknowledger ended right
				// after a completed send was reported as c19:trace:unexplained on the unchanged tree (timing-dependent:
				// about one run in three; session 4)
				rc.emit(47)
				rc.acker = 2
				break
			}
			rc.emit(21, id, 1)
			delete(rc.pmap, target)
			lastAck = target
			rc.acker = 0
		case cwAckFail:
			rc.ackerTake()
			rc.emit(47)
			rc.acker = 2
		case cwConsumed:
			ch, ok := index[e.ID]
			if !ok || ch != lastAck {
				rc.fail("OnChunkConsumed(%s) without a matching ACK", e.ID)
			}
			lastAck = -1
		case cwLeftover:
			rc.toFinal(i)
			ch, ok := index[e.ID]
			if !ok {
				rc.fail("unknown chunk %s handed back", e.ID)
				break
			}
			if rc.phase != cpFinal || len(rc.left) == 0 || rc.left[0] != ch {
				rc.fail("chunk %s handed back, leftovers are %v in phase %d", e.ID, rc.left, rc.phase)
				break
			}
			rc.left = rc.left[1:]
			rc.emit(22, c19b2i(e.Saved || rc.afterFiles[e.ID]))
		case cwFinished:
			rc.toFinal(i)
			if len(rc.left) > 0 {
				rc.fail("consumer finished with %d leftovers not handed back", len(rc.left))
			}
			rc.emit(51) // run() returns: onFinished
			rc.drainWindow()
			rc.emit(25)
			rc.phase = cpStopped
		}
	}
	if rc.problem == "" && rc.phase != cpStopped {
		rc.fail("the consumer did not finish (phase %d)", rc.phase)
	}
	z := []int64{1, 1 << 40, int64(params.QueueLen), int64(params.MemLen), 0, int64(params.AckPending), int64(len(po.Before)), int64(len(chunks))}
	for _, c := range chunks {
		z = append(z, int64(c.Size))
	}
	z = append(z, rc.ev...)
	return rc, z
}

// c19Kind2Output: the gathered counters in the model's format.
func c19Kind2Output(po *c19PipeObs) string {
	b, c := po.Buf, po.Cli
	return fmt.Sprintf("ok:b=%d,%d,%d,%d,%d,%d,%d,%d;c=%d,%d,%d,%d,%d,%d,%d,%d;f=%d;ps=1",
		b["pending_chunks"], b["input_chunks_total/transient"], b["input_chunks_total/persistent"], b["consumed_chunks_total"],
		b["leftover_chunks_total"], b["dropped_chunks_total"], b["persistent_chunks"], b["persistent_chunk_bytes"],
		c["forward_attempts_total"], c["forwarded_chunks_total"], c["forwarded_chunk_bytes_total"], c["acknowledged_chunks_total"],
		c["acknowledged_chunk_bytes_total"], c["opened_sessions_total"], c["queued_chunks/leftover"], c["queued_chunks/pendingAck"],
		len(po.After))
}

// c19PipeOracle: the chunk-level balance equations of the property on the observed events (independent of Coq).
func c19PipeOracle(po *c19PipeObs, chunks []c19Chunk, nrec int) []Fail {
	var fails []Fail
	add := func(sig, format string, a ...interface{}) {
		fails = append(fails, Fail{Sig: sig, Desc: fmt.Sprintf("gen %d pipeline %s output %s: ", po.Gen, po.Pipeline, po.Output) + fmt.Sprintf(format, a...)})
	}
	b, c := po.Buf, po.Cli
	in := b["input_chunks_total/transient"] + b["input_chunks_total/persistent"]
	pending, consumed, leftover, dropped := b["pending_chunks"], b["consumed_chunks_total"], b["leftover_chunks_total"], b["dropped_chunks_total"]
	var nSend, nSendOk, nConsumed, nLeft, nOpenAdopted int64
	var consumedBytes, sentOkBytes int64
	closed := map[int]bool{}
	evs := po.Consumer.Events()
	for _, e := range evs {
		if e.Kind == cwClose {
			closed[e.Conn] = true
		}
	}
	for _, e := range evs {
		switch e.Kind {
		case cwSendBegin:
			nSend++
		case cwSendOk:
			nSendOk++
			sentOkBytes += int64(e.Size)
		case cwConsumed:
			nConsumed++
			consumedBytes += int64(e.Size)
		case cwLeftover:
			nLeft++
		case cwOpenOk:
			if closed[e.Conn] {
				nOpenAdopted++
			}
		}
	}
	created := int64(len(chunks) - nrec)
	var createdBytes, afterBytes, nBad, unreadableAfter int64
	for _, ch := range chunks[nrec:] {
		createdBytes += int64(ch.Size)
	}
	for _, ch := range chunks[:nrec] {
		if ch.Bad != 0 {
			nBad++ // recovered entries the feeder must count as dropped: zero-length (corrupted) or unreadable
		}
	}
	for _, f := range po.After {
		afterBytes += int64(f.Size)
		if f.Unreadable {
			unreadableAfter++
		}
	}
	files := int64(len(po.After))
	// accepted = delivered + left on disk + dropped (+ still pending)
	if in != consumed+leftover+dropped+pending {
		add("c19:buffer:in!=consumed+leftover+dropped+pending", "input %d (transient %d + persistent %d) but consumed %d + leftover %d + dropped %d + pending %d = %d",
			in, b["input_chunks_total/transient"], b["input_chunks_total/persistent"], consumed, leftover, dropped, pending, consumed+leftover+dropped+pending)
	}
	// the gauges of what is left on disk can never be negative
	if b["persistent_chunks"] < 0 || b["persistent_chunk_bytes"] < 0 || pending < 0 {
		add("c19:buffer:negative-gauge", "persistent_chunks %d, persistent_chunk_bytes %d, pending_chunks %d after the stop", b["persistent_chunks"], b["persistent_chunk_bytes"], pending)
	}
	expected := dropped == nBad // nothing was dropped except the recovered entries that cannot be delivered
	if expected && in != int64(nrec)+created {
		add("c19:buffer:in!=recovered+created", "input chunks %d but %d files were recovered and %d new chunks were seen (sent, confirmed, handed back or on disk)", in, nrec, created)
	}
	if w := po.Worker["chunks_total"]; expected && w != created {
		add("c19:worker:chunks_total!=created", "process_chunks_total %d but %d new chunks were seen", w, created)
	}
	if w := po.Worker["chunk_bytes_total"]; expected && w != createdBytes {
		add("c19:worker:chunk_bytes_total!=created", "process_chunk_bytes_total %d but the new chunks have %d bytes", w, createdBytes)
	}
	if consumed != nConsumed {
		add("c19:buffer:consumed!=confirmations", "consumed_chunks_total %d but the consumer confirmed %d chunks", consumed, nConsumed)
	}
	if leftover != nLeft {
		add("c19:buffer:leftover!=handbacks", "leftover_chunks_total %d but the consumer handed back %d chunks", leftover, nLeft)
	}
	if dropped != nBad {
		add("c19:buffer:dropped!=undeliverable", "dropped_chunks_total %d but %d recovered entries were zero-length or unreadable (no quota, no queue overflow in this scenario)", dropped, nBad)
	}
	if expected {
		// "left on disk": the chunk files in the queue directory after the stop are the handed-back and the still pending
		// chunks (plus the entries that cannot be read, which stay where they are and are not the agent's any more);
		// persistent_chunks / persistent_chunk_bytes are the number and the total size of those files
		if files != leftover+pending+unreadableAfter {
			add("c19:buffer:disk!=leftover+pending", "%d chunk files after the stop (%d of them unreadable entries) but leftover %d + pending %d", files, unreadableAfter, leftover, pending)
		}
		if b["persistent_chunks"] != files-unreadableAfter || b["persistent_chunk_bytes"] != afterBytes {
			add("c19:buffer:persistent-gauges!=disk", "persistent_chunks %d / persistent_chunk_bytes %d but %d chunk files (+ %d unreadable entries) with %d bytes are in the queue directory; start-up directory: %s",
				b["persistent_chunks"], b["persistent_chunk_bytes"], files-unreadableAfter, unreadableAfter, afterBytes, c19DiskText(po.Before))
		}
	}
	// client
	if c["forward_attempts_total"] != nSend {
		add("c19:client:attempts!=sends", "forward_attempts_total %d but SendChunk was called %d times", c["forward_attempts_total"], nSend)
	}
	if c["forwarded_chunks_total"] > nSendOk || c["forwarded_chunk_bytes_total"] > sentOkBytes {
		add("c19:client:forwarded>completed-sends", "forwarded_chunks_total %d (%d B) but only %d sends completed (%d B)",
			c["forwarded_chunks_total"], c["forwarded_chunk_bytes_total"], nSendOk, sentOkBytes)
	}
	if c["acknowledged_chunks_total"] != nConsumed || c["acknowledged_chunk_bytes_total"] != consumedBytes {
		add("c19:client:acknowledged!=confirmations", "acknowledged_chunks_total %d (%d B) but %d chunks (%d B) were confirmed to the buffer",
			c["acknowledged_chunks_total"], c["acknowledged_chunk_bytes_total"], nConsumed, consumedBytes)
	}
	if c["acknowledged_chunks_total"] > c["forwarded_chunks_total"] {
		add("c19:client:acknowledged>forwarded", "acknowledged %d > forwarded %d", c["acknowledged_chunks_total"], c["forwarded_chunks_total"])
	}
	// against the upstream, cumulatively over the generations so far (the upstream may finish reading what a
	// generation sent after that generation has stopped)
	if po.CumAcked > int64(po.SrvAcks) {
		add("c19:client:acknowledged>upstream-acks", "acknowledged_chunks_total %d (all generations so far) but the upstream wrote only %d ACKs for this pipeline", po.CumAcked, po.SrvAcks)
	}
	if int64(po.SrvRecv) > po.CumAttempts {
		add("c19:client:upstream-received>attempts", "the upstream received %d chunks but only %d sends were attempted (all generations so far)", po.SrvRecv, po.CumAttempts)
	}
	if c["queued_chunks/pendingAck"] != 0 || c["queued_chunks/leftover"] != 0 {
		add("c19:client:gauges-not-zero-after-stop", "queued_chunks{pendingAck} = %d, queued_chunks{leftover} = %d after the agent stopped",
			c["queued_chunks/pendingAck"], c["queued_chunks/leftover"])
	}
	if c["opened_sessions_total"] != nOpenAdopted {
		add("c19:client:opened!=sessions", "opened_sessions_total %d but %d connections were used", c["opened_sessions_total"], nOpenAdopted)
	}
	return fails
}

func c19EventsText(evs []c19Ev) string {
	parts := make([]string, len(evs))
	for i, e := range evs {
		parts[i] = e.String()
	}
	return strings.Join(parts, " ")
}

func c19DiskText(fs []c19DiskFile) string {
	parts := make([]string, len(fs))
	for i, f := range fs {
		kind := ""
		if f.Unreadable {
			kind = " unreadable"
		} else if f.Size == 0 {
			kind = " zero-length"
		}
		parts[i] = fmt.Sprintf("%s(%d B%s)", f.ID, f.Size, kind)
	}
	return "[" + strings.Join(parts, " ") + "]"
}
