package main

// C06: routing, queueing and tagging follow exactly the record's own key fields.
//
// Implementation under test (all real code, nothing re-implemented):
//   kind 1  obykeyset.NewOrchestrator (+ initial pipeline IDs) with a recording PipelineStarter and a
//           recording MetricCreator; records are fed through real sinks (NewSink/Accept/Close/Shutdown)
//   kind 2  the same orchestrator whose PipelineStarter creates the real hybridbuffer bufferer
//           (Config.NewBufferer) on a temp root and spills one chunk per record; then the root is read back,
//           Config.ListBufferIDs lists the queues, a second orchestrator is started from the listed IDs and
//           its bufferers are asked where they attached (QueueDirPath)
//   kind 3  Config.ListBufferIDs on a root directory built entry by entry (files, directories of any mode,
//           with/without .id, with/without chunks)
//   kind 4  base.LogProcessCounterSet.SelectMetricKeySet on a real promreg factory; the metric families are
//           gathered and the per-label-set counts read back
//
// The oracles group what was observed by the records' ACTUAL key tuples and are independent of the Coq model.
//
// Since the fix b1856f7 the key_* metric labels are the key values with the bytes that are not well-formed UTF-8
// removed (base.MetricLabelValues): a LOSSY rendering. A pipeline is therefore never identified by its labels: the key
// tuple a pipeline stands for is the tuple of the records that reach it, resp. for a pipeline without records
// (created from a queue id found at startup) the key values its id splits into (c06AssignKeys). The labels have their
// own oracle: position by position exactly the reference rendering of the pipeline's tuple (c06RefLabel).

import (
	"bytes"
	"encoding/hex"
	"fmt"
	"io"
	"os"
	"path/filepath"
	"sort"
	"strconv"
	"strings"
	"sync"
	"sync/atomic"
	"syscall"
	"time"
	"unicode/utf8"

	"github.com/c2h5oh/datasize"
	"github.com/relex/gotils/logger"
	"github.com/relex/gotils/promexporter/promreg"
	"github.com/relex/slog-agent/base"
	"github.com/relex/slog-agent/buffer/hybridbuffer"
	"github.com/relex/slog-agent/defs"
	"github.com/relex/slog-agent/orchestrate/obase"
	"github.com/relex/slog-agent/orchestrate/obykeyset"
)

// ---------------------------------------------------------------------------------------------
// recording doubles

// c06MC records the label names/values handed to AddOrGetPrefix and passes them on unchanged to the real registry
// (before b1856f7 they had to be hex-encoded: raw key bytes as label values broke the registry, property C07).
//
// Every pipeline ("process_" prefix) additionally gets a label "c06pipe" with a running number, so that no two pipelines
// share a series: key tuples that differ in ill-formed bytes only have equal key_* label values, and the hybrid buffer
// keeps program state in its gauges (pending_chunks is Set(0) by every new bufferer and awaited by WaitPendingChunks in
// SendAllAtEnd mode; persistent_chunk_bytes is read for the space limit). With shared series the SendAllAtEnd shutdown
// of kind 5 - this harness's means of observing the deliveries - occasionally returns before a recovered chunk has been
// handed to the consumer (seen: 4 of 360 runs under load). That coupling is not part of C06's statement; what is shared
// on the real code is determined separately (design_notes/C06.md) and kind 4 runs without this wrapper.
type c06MC struct {
	promreg.MetricCreator
	names  []string
	values []string
	onNew  func(prefix string, m *c06MC) // called for every sub-creator (inherited)
	seq    *int64                        // pipelines created below the same root
}

func (m *c06MC) AddOrGetPrefix(prefix string, labelNames []string, labelValues []string) promreg.MetricCreator {
	regNames, regValues := labelNames, labelValues
	if prefix == "process_" {
		if m.seq == nil {
			m.seq = new(int64)
		}
		k := atomic.AddInt64(m.seq, 1)
		regNames = append(append([]string{}, labelNames...), "c06pipe")
		regValues = append(append([]string{}, labelValues...), strconv.FormatInt(k, 10))
	}
	sub := &c06MC{
		seq:           m.seq,
		MetricCreator: m.MetricCreator.AddOrGetPrefix(prefix, regNames, regValues),
		names:         append(append([]string{}, m.names...), labelNames...),
		values:        append(append([]string{}, m.values...), labelValues...),
		onNew:         m.onNew,
	}
	if m.onNew != nil {
		m.onNew(prefix, sub)
	}
	return sub
}

// keyLabels returns the values of the key_* labels in order
func (m *c06MC) keyLabels() []string {
	var out []string
	for i, n := range m.names {
		if strings.HasPrefix(n, "key_") {
			out = append(out, m.values[i])
		}
	}
	return out
}

type c06Pipe struct {
	id, tag string
	labels  []string // values of the key_* labels of the pipeline's metric creator (lossy: never used as identity)
	keys    []string // the key tuple the pipeline stands for (c06AssignKeys); nil = none
	records []int    // message numbers that arrived on this pipeline's channel
	dir     string   // kind 2: base name of the queue directory the bufferer attached to ("-" = root)
}

type c06Recorder struct {
	mu    sync.Mutex
	pipes []*c06Pipe
}

var c06Once sync.Once

func c06Init() {
	c06Once.Do(func() {
		logger.SetOutput(io.Discard)
		logger.SetLogLevel(logger.FatalLevel)
		defs.BufferMaxNumChunksInQueue = 64
		defs.BufferMaxNumChunksInMemory = 0 // every accepted chunk is spilled to the queue directory at once
		defs.BufferShutDownTimeout = 5 * time.Second
		defs.IntermediateBufferMaxNumLogs = 4 // the sinks flush to the pipeline channel every 4 records
	})
}

func c06MatchChunk(name string) bool { return strings.HasSuffix(name, ".ck") }

func c06Hex(s string) string { return hex.EncodeToString([]byte(s)) }

func c06HexTuple(t []string) string {
	parts := make([]string, len(t))
	for i, k := range t {
		parts[i] = c06Hex(k)
	}
	return strings.Join(parts, ".")
}

func c06Q(t []string) string { return fmt.Sprintf("%q", t) }

func c06EqTuple(a, b []string) bool {
	if len(a) != len(b) {
		return false
	}
	for i := range a {
		if a[i] != b[i] {
			return false
		}
	}
	return true
}

// c06RefLabel: what a key value looks like as a label value - the value without the bytes that do not belong to a
// well-formed UTF-8 sequence; a valid value is the label value itself. Written with the decoder of unicode/utf8, not
// with strings.ToValidUTF8 (which the implementation calls).
func c06RefLabel(k string) string {
	if utf8.ValidString(k) {
		return k
	}
	var sb strings.Builder
	for i := 0; i < len(k); {
		r, size := utf8.DecodeRuneInString(k[i:])
		if r == utf8.RuneError && size <= 1 {
			i++ // an ill-formed byte: left out
			continue
		}
		sb.WriteString(k[i : i+size])
		i += size
	}
	return sb.String()
}

func c06RefLabels(t []string) []string {
	out := make([]string, len(t))
	for i, k := range t {
		out[i] = c06RefLabel(k)
	}
	return out
}

// c06AssignKeys decides, without looking at the labels, which key tuple every pipeline stands for: the tuple of the
// first record that reached it; a pipeline without records (started from an initial / recovered id) stands for the
// n key values its id splits into (NewOrchestrator's contract for the ids found at startup), or for nothing.
func c06AssignKeys(pipes []*c06Pipe, tuples [][]string, n int) {
	for _, p := range pipes {
		p.keys = nil
		for _, r := range p.records {
			if r >= 0 && r < len(tuples) {
				p.keys = tuples[r]
				break
			}
		}
		if p.keys == nil && len(p.records) == 0 {
			if ks := strings.Split(p.id, ","); len(ks) == n {
				p.keys = ks
			}
		}
	}
}

// c06CheckLabels: the pipeline's id is the ","-join of its tuple and its key_* labels are exactly the reference
// rendering of its tuple (for a valid UTF-8 tuple: the tuple itself)
func c06CheckLabels(pipes []*c06Pipe, ctx string) (fails []Fail) {
	for _, p := range pipes {
		if p.keys == nil {
			continue
		}
		if p.id != strings.Join(p.keys, ",") {
			// (a record routed to a pipeline that was created for another key tuple shows up here, and in its tag and labels)
			fails = append(fails, Fail{"c06:id:wrong", fmt.Sprintf("%sthe pipeline that serves keys %s has id / queue name %q", ctx, c06Q(p.keys), p.id)})
		}
		if want := c06RefLabels(p.keys); !c06EqTuple(p.labels, want) {
			fails = append(fails, Fail{"c06:labels:wrong", fmt.Sprintf("%sthe pipeline that serves keys %s (id %q) has metric labels %s, its own values give %s",
				ctx, c06Q(p.keys), p.id, c06Q(p.labels), c06Q(want))})
		}
	}
	return fails
}

// tupleKey is an injective encoding of a tuple, used only by the oracle to group records
func c06TupleKey(t []string) string {
	var sb strings.Builder
	for _, k := range t {
		sb.WriteString(strconv.Itoa(len(k)))
		sb.WriteByte(':')
		sb.WriteString(k)
	}
	return sb.String()
}

// class of a pair of distinct tuples: why might the code confuse them
func c06PairClass(a, b []string) string {
	if strings.Join(a, ",") == strings.Join(b, ",") {
		return "comma" // the ","-joined ids coincide: only possible when a key value contains ","
	}
	if strings.Join(a, "") == strings.Join(b, "") {
		return "concat"
	}
	san := strings.NewReplacer("/", "_", "\x00", "_")
	if san.Replace(strings.Join(a, ",")) == san.Replace(strings.Join(b, ",")) {
		return "sanitize"
	}
	return "other"
}

func c06Unhex(h string) string {
	if h == "-" {
		return "<root>"
	}
	b, err := hex.DecodeString(h)
	if err != nil {
		return h
	}
	return string(b)
}

// ---------------------------------------------------------------------------------------------
// reference tag expansion (oracle side; written from the documentation of stringtemplate, not from its code)

type c06Part struct {
	lit        string
	idx        int // -1 = literal
	hasS, hasE bool
	s, e       int
}

func c06IsWord(c byte) bool {
	return c == '_' || (c >= '0' && c <= '9') || (c >= 'a' && c <= 'z') || (c >= 'A' && c <= 'Z')
}

func c06RefParse(tmpl string, names []string) ([]c06Part, bool) {
	var parts []c06Part
	find := func(n string) int {
		for i, x := range names {
			if x == n {
				return i
			}
		}
		return -1
	}
	i := 0
	for i < len(tmpl) {
		if tmpl[i] != '$' {
			j := i
			for j < len(tmpl) && tmpl[j] != '$' {
				j++
			}
			parts = append(parts, c06Part{lit: tmpl[i:j], idx: -1})
			i = j
			continue
		}
		// variable
		if i+1 < len(tmpl) && tmpl[i+1] == '{' {
			end := strings.IndexByte(tmpl[i:], '}')
			if end < 0 {
				return nil, false
			}
			expr := tmpl[i+2 : i+end]
			j := 0
			for j < len(expr) && c06IsWord(expr[j]) {
				j++
			}
			if j == 0 {
				return nil, false
			}
			p := c06Part{idx: find(expr[:j])}
			rest := expr[j:]
			if rest != "" {
				if len(rest) < 3 || rest[0] != '[' || rest[len(rest)-1] != ']' {
					return nil, false
				}
				se := strings.Split(rest[1:len(rest)-1], ":")
				if len(se) != 2 {
					return nil, false
				}
				num := func(x string) (int, bool, bool) {
					if x == "" {
						return 0, false, true
					}
					d := x
					if d[0] == '-' {
						d = d[1:]
					}
					if d == "" || len(d) > 18 {
						return 0, false, false
					}
					for k := 0; k < len(d); k++ {
						if d[k] < '0' || d[k] > '9' {
							return 0, false, false
						}
					}
					v, _ := strconv.Atoi(x)
					return v, true, true
				}
				var ok1, ok2 bool
				p.s, p.hasS, ok1 = num(se[0])
				p.e, p.hasE, ok2 = num(se[1])
				if !ok1 || !ok2 {
					return nil, false
				}
			}
			if p.idx < 0 {
				return nil, false
			}
			parts = append(parts, p)
			i += end + 1
			continue
		}
		j := i + 1
		for j < len(tmpl) && c06IsWord(tmpl[j]) {
			j++
		}
		if j == i+1 {
			return nil, false
		}
		idx := find(tmpl[i+1 : j])
		if idx < 0 {
			return nil, false
		}
		parts = append(parts, c06Part{idx: idx})
		i = j
	}
	return parts, true
}

// python-like substring v[s:e]
func c06RefSlice(v string, p c06Part) string {
	n := len(v)
	s, e := 0, n
	if p.hasS {
		s = p.s
		if s < 0 {
			s += n
		}
		if s < 0 {
			s = 0
		}
		if s > n {
			s = n
		}
	}
	if p.hasE {
		e = p.e
		if e < 0 {
			e += n
		}
		if e < 0 {
			e = 0
		}
		if e > n {
			e = n
		}
	}
	if s >= e {
		return ""
	}
	return v[s:e]
}

func c06RefExpand(parts []c06Part, keys []string) string {
	var sb strings.Builder
	for _, p := range parts {
		if p.idx < 0 {
			sb.WriteString(p.lit)
		} else {
			sb.WriteString(c06RefSlice(keys[p.idx], p))
		}
	}
	return sb.String()
}

// ---------------------------------------------------------------------------------------------
// case decoding

type c06Case struct {
	tmpl   string
	names  []string
	n      int
	inits  []string   // kind 1: initial pipeline IDs
	tuples [][]string // key tuple of each record
	sinks  []int      // kind 1: sink of each record
	nsinks int
	umask  int
}

func c06Names(n int, c *Case, off int) ([]string, bool) {
	names := make([]string, n)
	for i := 0; i < n; i++ {
		if off+i >= len(c.S) {
			return nil, false
		}
		names[i] = string(c.S[off+i])
	}
	return names, true
}

func c06Tuples(n int, s [][]byte) ([][]string, bool) {
	if n <= 0 || len(s)%n != 0 {
		return nil, false
	}
	var out [][]string
	for i := 0; i+n <= len(s); i += n {
		t := make([]string, n)
		for j := 0; j < n; j++ {
			t[j] = string(s[i+j])
		}
		out = append(out, t)
	}
	return out, true
}

func c06Schema(names []string) (sch base.LogSchema, ok bool) {
	defer func() {
		if recover() != nil {
			ok = false
		}
	}()
	return base.MustNewLogSchema(append(append([]string{}, names...), "msg")), true
}

func c06Record(sch *base.LogSchema, t []string, i int) *base.LogRecord {
	fields := make(base.LogFields, 0, len(t)+1)
	for _, k := range t {
		fields = append(fields, string(append([]byte{}, k...))) // own copy: the code must not rely on our backing store
	}
	fields = append(fields, strconv.Itoa(i))
	r := sch.NewTestRecord2(time.Unix(int64(1000+i), 0), fields)
	r.RawLength = 10
	return r
}

// ---------------------------------------------------------------------------------------------
// kind 1: routing in memory

func (rec *c06Recorder) starter(parentLogger logger.Logger, mc promreg.MetricCreator,
	input <-chan []*base.LogRecord, bufferID string, outputTag string, onStopped func()) {
	p := &c06Pipe{id: bufferID, tag: outputTag}
	if w, ok := mc.(*c06MC); ok {
		p.labels = w.keyLabels()
	}
	rec.mu.Lock()
	rec.pipes = append(rec.pipes, p)
	rec.mu.Unlock()
	go func() {
		for batch := range input {
			for _, r := range batch {
				n, _ := strconv.Atoi(r.Fields[len(r.Fields)-1])
				p.records = append(p.records, n)
			}
		}
		onStopped()
	}()
}

func c06PipesOut(pipes []*c06Pipe, withDir bool) string {
	parts := make([]string, len(pipes))
	for i, p := range pipes {
		parts[i] = c06Hex(p.id) + "/" + c06Hex(p.tag) + "/" + c06HexTuple(p.labels)
		if withDir {
			parts[i] += "/" + p.dir
		}
	}
	return strings.Join(parts, ";")
}

func c06RunRoute(c *Case) (out string, fails []Fail) {
	if len(c.Z) < 3 || len(c.S) < 1 {
		return "badcase", nil
	}
	n, nsinks, ninit := int(c.Z[0]), int(c.Z[1]), int(c.Z[2])
	if n < 1 || n > 8 || nsinks < 1 || nsinks > 16 || ninit < 0 || 1+n+ninit > len(c.S) {
		return "badcase", nil
	}
	tmpl := string(c.S[0])
	names, _ := c06Names(n, c, 1)
	var inits []string
	for i := 0; i < ninit; i++ {
		inits = append(inits, string(c.S[1+n+i]))
	}
	tuples, ok := c06Tuples(n, c.S[1+n+ninit:])
	if !ok && len(c.S) > 1+n+ninit {
		return "badcase", nil
	}
	if len(c.Z) != 3+len(tuples) {
		return "badcase", nil
	}
	sch, ok := c06Schema(names)
	if !ok {
		return "badcase", nil
	}
	if _, err := obase.NewTagBuilder(tmpl, names); err != nil {
		if _, refOK := c06RefParse(tmpl, names); refOK {
			fails = append(fails, Fail{"c06:tmpl:rejected", fmt.Sprintf("template %q over %q rejected: %v", tmpl, names, err)})
		}
		return "err:tmpl", fails
	}
	rec := &c06Recorder{}
	mc := &c06MC{MetricCreator: promreg.NewMetricFactory("c06r_", nil, nil)}
	var orch base.Orchestrator
	panicked := func() (p bool) {
		defer func() {
			if r := recover(); r != nil {
				p = true
			}
		}()
		orch = obykeyset.NewOrchestrator(logger.Root(), sch, names, tmpl, mc, rec.starter, inits)
		sinks := make([]base.BufferReceiverSink, nsinks)
		for i := range sinks {
			sinks[i] = orch.NewSink(fmt.Sprintf("conn%d", i), base.ClientNumber(i+1))
		}
		for i, t := range tuples {
			si := int(c.Z[3+i])
			if si < 0 || si >= nsinks {
				si = 0
			}
			sinks[si].Accept([]*base.LogRecord{c06Record(&sch, t, i)})
		}
		for _, s := range sinks {
			s.Close()
		}
		orch.Shutdown()
		return false
	}()
	if panicked {
		return "panic", append(fails, Fail{"c06:panic", fmt.Sprintf("orchestrator panics: template %q keys %q inits %q tuples %q", tmpl, names, inits, tuples)})
	}
	where := make([]int, len(tuples))
	for i := range where {
		where[i] = -1
	}
	for pi, p := range rec.pipes {
		for _, r := range p.records {
			if r >= 0 && r < len(where) {
				if where[r] != -1 {
					fails = append(fails, Fail{"c06:route:duplicated", fmt.Sprintf("record %d delivered twice", r)})
				}
				where[r] = pi
			}
		}
	}
	ws := make([]string, len(where))
	for i, w := range where {
		ws[i] = strconv.Itoa(w)
	}
	out = "ok:" + c06PipesOut(rec.pipes, false) + "#" + strings.Join(ws, ",")

	// ---- oracle: every record is in a pipeline that was created for exactly its own key tuple ----
	c06AssignKeys(rec.pipes, tuples, n)
	parts, refOK := c06RefParse(tmpl, names)
	if !refOK {
		fails = append(fails, Fail{"c06:tmpl:accepted", fmt.Sprintf("template %q over %q accepted but not a documented template", tmpl, names)})
	}
	for i, t := range tuples {
		if where[i] < 0 {
			fails = append(fails, Fail{"c06:route:lost", fmt.Sprintf("record %d with keys %s reached no pipeline", i, c06Q(t))})
			continue
		}
		p := rec.pipes[where[i]]
		if !c06EqTuple(p.keys, t) {
			fails = append(fails, Fail{"c06:pipeline-shared:" + c06PairClass(p.keys, t),
				fmt.Sprintf("record with keys %s was routed to the pipeline that serves %s (id %q tag %q); template %q",
					c06Q(t), c06Q(p.keys), p.id, p.tag, tmpl)})
			continue
		}
		if refOK {
			if want := c06RefExpand(parts, t); want != p.tag {
				fails = append(fails, Fail{"c06:tag:wrong", fmt.Sprintf("keys %s template %q: tag %q, expected %q", c06Q(t), tmpl, p.tag, want)})
			}
		}
	}
	fails = append(fails, c06CheckLabels(rec.pipes, "")...)
	fails = append(fails, c06CheckPipes(rec.pipes, "")...)
	// no phantom pipelines: every pipeline was created for the key values of a record or of an initial id of arity n
	for _, p := range rec.pipes {
		ok := len(p.records) > 0 && p.keys != nil // it serves the records of its tuple
		for _, id := range inits {
			if keys := strings.Split(id, ","); len(keys) == n && p.id == id && c06EqTuple(p.keys, keys) {
				ok = true
			}
		}
		if !ok {
			fails = append(fails, Fail{"c06:pipeline-phantom", fmt.Sprintf("pipeline with id %q (labels %s) belongs to no record and no initial id", p.id, c06Q(p.labels))})
		}
	}
	// initial ids (queues found at startup): an id that splits into n key values must have a pipeline for exactly these values
	for _, id := range inits {
		keys := strings.Split(id, ",")
		if len(keys) != n {
			continue
		}
		found := false
		for _, p := range rec.pipes {
			if p.keys != nil && c06EqTuple(p.keys, keys) {
				found = true
			}
		}
		if !found {
			fails = append(fails, Fail{"c06:init:missing-pipeline", fmt.Sprintf("initial pipeline id %q (keys %s) has no pipeline", id, c06Q(keys))})
		}
	}
	return out, fails
}

// c06CheckPipes: no two pipelines for the same tuple, no two different tuples with the same pipeline id
func c06CheckPipes(pipes []*c06Pipe, ctx string) (fails []Fail) {
	byTuple := map[string]*c06Pipe{}
	byID := map[string]*c06Pipe{}
	for _, p := range pipes {
		if p.keys == nil {
			continue
		}
		k := c06TupleKey(p.keys)
		if q, dup := byTuple[k]; dup {
			fails = append(fails, Fail{"c06:pipeline-duplicate", fmt.Sprintf("%stwo pipelines for keys %s (ids %q, %q)", ctx, c06Q(p.keys), q.id, p.id)})
		} else {
			byTuple[k] = p
		}
		if q, dup := byID[p.id]; dup && !c06EqTuple(q.keys, p.keys) {
			fails = append(fails, Fail{"c06:id-collision:" + c06PairClass(q.keys, p.keys),
				fmt.Sprintf("%skey sets %s and %s get the same pipeline id / queue name %q", ctx, c06Q(q.keys), c06Q(p.keys), p.id)})
		} else if !dup {
			byID[p.id] = p
		}
	}
	return fails
}

// ---------------------------------------------------------------------------------------------
// kind 2: queue directories and recovery on a real temp directory

type c06DiskStarter struct {
	rec  *c06Recorder
	cfg  *hybridbuffer.Config
	root string
	// write: spill one chunk per record; otherwise only attach
	write bool
	wg    sync.WaitGroup
}

func (ds *c06DiskStarter) start(parentLogger logger.Logger, mc promreg.MetricCreator,
	input <-chan []*base.LogRecord, bufferID string, outputTag string, onStopped func()) {
	p := &c06Pipe{id: bufferID, tag: outputTag}
	if w, ok := mc.(*c06MC); ok {
		p.labels = w.keyLabels()
	}
	buf := ds.cfg.NewBufferer(parentLogger, bufferID, c06MatchChunk, mc.AddOrGetPrefix("buffer_", []string{"output"}, []string{"o"}), false)
	p.dir = "?"
	if q, ok := buf.(interface{ QueueDirPath() string }); ok {
		d := filepath.Clean(q.QueueDirPath())
		if d == filepath.Clean(ds.root) {
			p.dir = "-"
		} else {
			p.dir = c06Hex(filepath.Base(d))
		}
	}
	ds.rec.mu.Lock()
	ds.rec.pipes = append(ds.rec.pipes, p)
	ds.rec.mu.Unlock()
	buf.Start()
	go func() {
		for batch := range input {
			for _, r := range batch {
				msg := r.Fields[len(r.Fields)-1]
				n, _ := strconv.Atoi(msg)
				p.records = append(p.records, n)
				if ds.write {
					buf.Accept(base.LogChunk{ID: "r" + msg + ".ck", Data: []byte(msg)})
				}
			}
		}
		buf.Destroy()
		onStopped()
	}()
}

type c06DirEntry struct {
	name   string
	isDir  bool
	id     string
	hasID  bool
	chunks []int
}

func c06ReadDir(path string) (id string, hasID bool, chunks []int, subdirs []string) {
	ents, _ := os.ReadDir(path)
	for _, e := range ents {
		nm := e.Name()
		if e.IsDir() {
			subdirs = append(subdirs, nm)
			continue
		}
		if nm == ".id" {
			b, err := os.ReadFile(filepath.Join(path, nm))
			if err == nil {
				id, hasID = string(b), true
			}
			continue
		}
		if strings.HasPrefix(nm, "r") && strings.HasSuffix(nm, ".ck") {
			if n, err := strconv.Atoi(nm[1 : len(nm)-3]); err == nil {
				b, _ := os.ReadFile(filepath.Join(path, nm))
				if string(b) != strconv.Itoa(n) {
					n = -1000 - n // content of another record: cannot happen unless files are overwritten
				}
				chunks = append(chunks, n)
			}
		}
	}
	sort.Ints(chunks)
	sort.Strings(subdirs)
	return
}

func c06Ints(xs []int) string {
	if len(xs) == 0 {
		return "-"
	}
	ss := make([]string, len(xs))
	for i, x := range xs {
		ss[i] = strconv.Itoa(x)
	}
	return strings.Join(ss, ".")
}

func c06IDStr(id string, has bool) string {
	if !has {
		return "-"
	}
	return c06Hex(id)
}

func c06RunDisk(c *Case) (out string, fails []Fail) {
	if len(c.Z) < 2 || len(c.S) < 1 {
		return "badcase", nil
	}
	n, umask := int(c.Z[0]), int(c.Z[1])
	if n < 1 || n > 8 || 1+n > len(c.S) || umask < 0 || umask > 0o777 {
		return "badcase", nil
	}
	tmpl := string(c.S[0])
	names, _ := c06Names(n, c, 1)
	tuples, ok := c06Tuples(n, c.S[1+n:])
	if !ok && len(c.S) > 1+n {
		return "badcase", nil
	}
	sch, ok := c06Schema(names)
	if !ok {
		return "badcase", nil
	}
	if _, err := obase.NewTagBuilder(tmpl, names); err != nil {
		return "err:tmpl", nil
	}
	root, err := os.MkdirTemp("", "c06q")
	if err != nil {
		panic(err)
	}
	defer os.RemoveAll(root)
	old := syscall.Umask(umask)
	defer syscall.Umask(old)
	cfg := &hybridbuffer.Config{RootPath: root, MaxBufSize: datasize.GB}

	// ---- phase A: route the records, every pipeline spills its records' chunks ----
	recA := &c06Recorder{}
	dsA := &c06DiskStarter{rec: recA, cfg: cfg, root: root, write: true}
	mcA := &c06MC{MetricCreator: promreg.NewMetricFactory("c06a_", nil, nil)}
	panicked := func() (p bool) {
		defer func() {
			if r := recover(); r != nil {
				p = true
			}
		}()
		orch := obykeyset.NewOrchestrator(logger.Root(), sch, names, tmpl, mcA, dsA.start, nil)
		sink := orch.NewSink("conn", 1)
		for i, t := range tuples {
			sink.Accept([]*base.LogRecord{c06Record(&sch, t, i)})
		}
		sink.Close()
		orch.Shutdown()
		return false
	}()
	if panicked {
		return "panic", []Fail{{"c06:panic", fmt.Sprintf("phase A panics: tuples %q", tuples)}}
	}

	// ---- phase B: what is on disk ----
	rootID, rootHasID, rootChunks, subdirs := c06ReadDir(root)
	type dirInfo struct {
		name   string
		id     string
		hasID  bool
		chunks []int
	}
	dirs := []dirInfo{}
	dparts := []string{"-=" + c06IDStr(rootID, rootHasID) + "=" + c06Ints(rootChunks)}
	for _, d := range subdirs {
		id, has, chunks, _ := c06ReadDir(filepath.Join(root, d))
		dirs = append(dirs, dirInfo{d, id, has, chunks})
		dparts = append(dparts, c06Hex(d)+"="+c06IDStr(id, has)+"="+c06Ints(chunks))
	}

	// ---- phase C: restart: list the queues, start an orchestrator from the listed ids ----
	var listed []string
	recC := &c06Recorder{}
	dsC := &c06DiskStarter{rec: recC, cfg: cfg, root: root, write: false}
	mcC := &c06MC{MetricCreator: promreg.NewMetricFactory("c06c_", nil, nil)}
	panicked = func() (p bool) {
		defer func() {
			if r := recover(); r != nil {
				p = true
			}
		}()
		listed = cfg.ListBufferIDs(logger.Root(), c06MatchChunk, promreg.NewMetricFactory("c06l_", nil, nil))
		sort.Strings(listed) // the order is not part of the contract: StartOrchestrator turns the ids into a set
		seen := map[string]bool{}
		var ids []string
		for _, id := range listed { // StartOrchestrator passes the set of listed ids
			if !seen[id] {
				seen[id] = true
				ids = append(ids, id)
			}
		}
		if len(ids) > 0 || true {
			orch := obykeyset.NewOrchestrator(logger.Root(), sch, names, tmpl, mcC, dsC.start, ids)
			orch.Shutdown()
		}
		return false
	}()
	if panicked {
		return "panic", []Fail{{"c06:panic", fmt.Sprintf("phase C panics: tuples %q", tuples)}}
	}
	lparts := make([]string, len(listed))
	for i, id := range listed {
		lparts[i] = c06Hex(id)
	}
	aparts := make([]string, len(recA.pipes))
	for i, p := range recA.pipes {
		aparts[i] = c06Hex(p.id)
	}
	out = "ok:" + strings.Join(aparts, ";") + "#" + strings.Join(dparts, ";") + "#" + strings.Join(lparts, ";") + "#" + c06PipesOut(recC.pipes, true)

	// ---- oracle ----
	c06AssignKeys(recA.pipes, tuples, n)
	c06AssignKeys(recC.pipes, nil, n) // recovered pipelines: the key values their (listed) id splits into
	fails = append(fails, c06CheckLabels(recA.pipes, "")...)
	fails = append(fails, c06CheckLabels(recC.pipes, "after restart: ")...)
	// (1) a queue directory holds the chunks of one key tuple only
	whereDir := map[int]string{} // record -> dir ("-" root)
	check := func(dname string, chunks []int) {
		var first []string
		for _, r := range chunks {
			if r < 0 || r >= len(tuples) {
				fails = append(fails, Fail{"c06:dir:foreign-chunk", fmt.Sprintf("chunk file of record %d with foreign content in %q", r, dname)})
				continue
			}
			whereDir[r] = dname
			if first == nil {
				first = tuples[r]
			} else if !c06EqTuple(first, tuples[r]) {
				fails = append(fails, Fail{"c06:dir-shared:" + c06PairClass(first, tuples[r]),
					fmt.Sprintf("queue directory %q holds chunks of key sets %s and %s", c06Unhex(dname), c06Q(first), c06Q(tuples[r]))})
			}
		}
	}
	check("-", rootChunks)
	for _, d := range dirs {
		check(c06Hex(d.name), d.chunks)
	}
	// (2) every chunk on disk is reattached to a pipeline of the key set that wrote it
	attached := map[string][]*c06Pipe{}
	for _, p := range recC.pipes {
		attached[p.dir] = append(attached[p.dir], p)
	}
	reported := map[string]bool{}
	for r, t := range tuples {
		d, onDisk := whereDir[r]
		if !onDisk {
			// nothing was stored (e.g. directory name too long for the file system): nothing to reattach
			continue
		}
		ps := attached[d]
		k := d + "|" + c06TupleKey(t)
		if reported[k] {
			continue
		}
		if len(ps) == 0 {
			reported[k] = true
			class := "other"
			switch {
			case d == "-" && strings.Join(t, ",") == "":
				class = "empty-id"
			case d == "-":
				class = "root-dir-for-nonempty-id"
			case strings.Contains(strings.Join(t, ""), ","):
				class = "comma"
			case umask&0o004 != 0:
				class = "dirmode"
			}
			fails = append(fails, Fail{"c06:recovery-dropped:" + class,
				fmt.Sprintf("chunks of key set %s in queue directory %q are not reattached after restart (umask %#o)", c06Q(t), c06Unhex(d), umask)})
			continue
		}
		for _, p := range ps {
			if !c06EqTuple(p.keys, t) {
				reported[k] = true
				fails = append(fails, Fail{"c06:recovery-foreign:" + c06PairClass(p.keys, t),
					fmt.Sprintf("chunks of key set %s in %q are reattached to the pipeline of %s (id %q)", c06Q(t), c06Unhex(d), c06Q(p.keys), p.id)})
			}
		}
	}
	fails = append(fails, c06CheckPipes(recC.pipes, "after restart: ")...)
	return out, fails
}

// ---------------------------------------------------------------------------------------------
// kind 3: ListBufferIDs on a constructed root
// per entry i: S[2i] = name, S[2i+1] = content of .id; Z[5i..] = type (0 file, 1 dir), perm, has .id (0/1),
// number of chunk files, number of other files

func c06RunList(c *Case) (out string, fails []Fail) {
	if len(c.S)%2 != 0 || len(c.Z) != len(c.S)/2*5 {
		return "badcase", nil
	}
	ne := len(c.S) / 2
	seen := map[string]bool{}
	for i := 0; i < ne; i++ {
		nm := string(c.S[2*i])
		if nm == "" || nm == "." || nm == ".." || len(nm) > 200 || strings.ContainsAny(nm, "/\x00") || seen[nm] {
			return "badcase", nil
		}
		seen[nm] = true
		z := c.Z[5*i : 5*i+5]
		if z[0] < 0 || z[0] > 1 || z[1] < 0 || z[1] > 0o777 || z[2] < 0 || z[2] > 1 || z[3] < 0 || z[3] > 20 || z[4] < 0 || z[4] > 20 {
			return "badcase", nil
		}
	}
	root, err := os.MkdirTemp("", "c06l")
	if err != nil {
		panic(err)
	}
	defer os.RemoveAll(root)
	old := syscall.Umask(0)
	defer syscall.Umask(old)
	for i := 0; i < ne; i++ {
		nm, id := string(c.S[2*i]), c.S[2*i+1]
		z := c.Z[5*i : 5*i+5]
		p := filepath.Join(root, nm)
		if z[0] == 0 {
			if err := os.WriteFile(p, id, 0o600); err != nil {
				panic(err)
			}
		} else {
			if err := os.Mkdir(p, 0o755); err != nil {
				panic(err)
			}
			if z[2] == 1 {
				os.WriteFile(filepath.Join(p, ".id"), id, 0o644)
			}
			for k := 0; k < int(z[3]); k++ {
				os.WriteFile(filepath.Join(p, fmt.Sprintf("c%d.ck", k)), []byte("x"), 0o644)
			}
			for k := 0; k < int(z[4]); k++ {
				os.WriteFile(filepath.Join(p, fmt.Sprintf("o%d.tmp", k)), []byte("x"), 0o644)
			}
		}
		if err := os.Chmod(p, os.FileMode(z[1])); err != nil {
			panic(err)
		}
	}
	cfg := &hybridbuffer.Config{RootPath: root, MaxBufSize: datasize.GB}
	var listed []string
	panicked := func() (p bool) {
		defer func() {
			if r := recover(); r != nil {
				p = true
			}
		}()
		listed = cfg.ListBufferIDs(logger.Root(), c06MatchChunk, promreg.NewMetricFactory("c06l_", nil, nil))
		sort.Strings(listed) // the order is not part of the contract
		return false
	}()
	for i := 0; i < ne; i++ { // so that RemoveAll can descend
		os.Chmod(filepath.Join(root, string(c.S[2*i])), 0o700)
	}
	if panicked {
		return "panic", []Fail{{"c06:panic", "ListBufferIDs panics"}}
	}
	lparts := make([]string, len(listed))
	for i, id := range listed {
		lparts[i] = c06Hex(id)
	}
	out = "ok:" + strings.Join(lparts, ";")
	// oracle: exactly the directories with a non-empty .id and at least one chunk, in name order
	type ent struct{ name, id string }
	var want []ent
	for i := 0; i < ne; i++ {
		z := c.Z[5*i : 5*i+5]
		if z[0] == 1 && z[2] == 1 && len(c.S[2*i+1]) > 0 && z[3] > 0 {
			want = append(want, ent{string(c.S[2*i]), string(c.S[2*i+1])})
		}
	}
	// (the order of the result is not part of the property: the caller turns it into a set)
	wantIDs := make([]string, len(want))
	for i, w := range want {
		wantIDs[i] = c06Hex(w.id)
	}
	gotIDs := append([]string{}, lparts...)
	sort.Strings(wantIDs)
	sort.Strings(gotIDs)
	if w, g := strings.Join(wantIDs, ";"), strings.Join(gotIDs, ";"); w != g {
		class := "other"
		for i := 0; i < ne; i++ {
			if c.Z[5*i] == 1 && c.Z[5*i+1]&0o004 == 0 {
				class = "dirmode"
			}
		}
		fails = append(fails, Fail{"c06:list:" + class, fmt.Sprintf("ListBufferIDs gives {%s}, the queue directories with an id and chunks are {%s}", g, w)})
	}
	return out, fails
}

// ---------------------------------------------------------------------------------------------
// kind 4: metric key sets of LogProcessCounterSet

func c06RunMetric(c *Case) (out string, fails []Fail) {
	if len(c.Z) < 1 {
		return "badcase", nil
	}
	n := int(c.Z[0])
	if n < 1 || n > 8 || n > len(c.S) {
		return "badcase", nil
	}
	names, _ := c06Names(n, c, 0)
	tuples, ok := c06Tuples(n, c.S[n:])
	if !ok && len(c.S) > n {
		return "badcase", nil
	}
	sch, ok := c06Schema(names)
	if !ok {
		return "badcase", nil
	}
	factory := promreg.NewMetricFactory("c06m_", nil, nil)
	sets := []*base.LogInputCounterSet{}
	sel := make([]int, len(tuples))
	panicked := func() (p bool) {
		defer func() {
			if r := recover(); r != nil {
				p = true
			}
		}()
		pc := base.NewLogProcessCounter(factory, sch, sch.MustCreateFieldLocators(names), []string{"o"})
		count := pc.RegisterCustomCounter("lbl")
		for i, t := range tuples {
			r := c06Record(&sch, t, i)
			ics := pc.SelectMetricKeySet(r)
			ics.CountRecordPass(r)
			count(r.RawLength)
			idx := -1
			for j, s := range sets {
				if s == ics {
					idx = j
				}
			}
			if idx < 0 {
				idx = len(sets)
				sets = append(sets, ics)
			}
			sel[i] = idx
		}
		pc.UpdateMetrics()
		return false
	}()
	if panicked {
		return "panic", []Fail{{"c06:metric:panic", fmt.Sprintf("SelectMetricKeySet panics on %q", tuples)}}
	}
	mfs, gerr := factory.Gather()
	if gerr != nil {
		// the label values come from MetricLabelValues and must be acceptable to the registry whatever the key bytes are
		return "err:gather", []Fail{{"c06:metric:gather-failed", fmt.Sprintf("Gather fails after metric keys %q: %v", tuples, gerr)}}
	}
	type cnt struct{ passed, labelled int }
	got := map[string]*cnt{}
	tupOf := map[string][]string{}
	for _, mf := range mfs {
		nm := mf.GetName()
		if nm != "c06m_passed_records_total" && nm != "c06m_labelled_records_total" {
			continue
		}
		for _, m := range mf.GetMetric() {
			lv := map[string]string{}
			for _, lp := range m.GetLabel() {
				lv[lp.GetName()] = lp.GetValue()
			}
			t := make([]string, n)
			for i, kn := range names {
				t[i] = lv["key_"+kn]
			}
			k := c06HexTuple(t)
			tupOf[k] = t
			if got[k] == nil {
				got[k] = &cnt{}
			}
			v := int(m.GetCounter().GetValue())
			if nm == "c06m_passed_records_total" {
				got[k].passed += v
			} else {
				got[k].labelled += v
			}
		}
	}
	keys := make([]string, 0, len(got))
	for k := range got {
		keys = append(keys, k)
	}
	sort.Strings(keys)
	mparts := make([]string, len(keys))
	for i, k := range keys {
		mparts[i] = fmt.Sprintf("%s=%d=%d", k, got[k].passed, got[k].labelled)
	}
	ss := make([]string, len(sel))
	for i, s := range sel {
		ss[i] = strconv.Itoa(s)
	}
	out = "ok:" + strings.Join(ss, ",") + "#" + strings.Join(mparts, ";")
	// oracle (1): the counter set (map entry) handed out for a record is the one of exactly its own key tuple:
	// two records share a counter set iff their tuples are equal
	firstOf := map[int]int{}  // counter set -> first record that selected it
	setOf := map[string]int{} // tuple -> counter set of its first record
	for i, t := range tuples {
		if j, seen := firstOf[sel[i]]; seen && !c06EqTuple(tuples[j], t) {
			class := "other"
			if strings.Join(tuples[j], "") == strings.Join(t, "") {
				class = "concat"
			}
			fails = append(fails, Fail{"c06:metric-shared:" + class,
				fmt.Sprintf("records with metric keys %s and %s are counted by the same counter set", c06Q(tuples[j]), c06Q(t))})
		} else if !seen {
			firstOf[sel[i]] = i
		}
		k := c06TupleKey(t)
		if s0, seen := setOf[k]; seen && s0 != sel[i] {
			fails = append(fails, Fail{"c06:metric:split", fmt.Sprintf("records with metric keys %s are counted by two counter sets", c06Q(t))})
		} else if !seen {
			setOf[k] = sel[i]
		}
	}
	// oracle (2): the exported series. Its key_* label values are the reference rendering of the key values (the values
	// themselves when they are valid UTF-8), and it carries exactly the records of the tuples that render to it
	want := map[string]int{}
	from := map[string][][]string{}
	for _, t := range tuples {
		k := c06HexTuple(c06RefLabels(t))
		if want[k] == 0 {
			tupOf[k] = c06RefLabels(t)
		}
		want[k]++
		dup := false
		for _, t2 := range from[k] {
			if c06EqTuple(t2, t) {
				dup = true
			}
		}
		if !dup {
			from[k] = append(from[k], t)
		}
	}
	wkeys := make([]string, 0, len(want))
	for k := range want {
		wkeys = append(wkeys, k)
	}
	sort.Strings(wkeys)
	for _, k := range wkeys {
		w, g := want[k], got[k]
		if g == nil || g.passed != w || g.labelled != w {
			other := ""
			class := "other"
			for _, t := range from[k] {
				for _, t2 := range tuples {
					if !c06EqTuple(t2, t) && strings.Join(t2, "") == strings.Join(t, "") && c06HexTuple(c06RefLabels(t2)) != k {
						other = c06Q(t2)
						class = "concat"
					}
				}
			}
			gs := "none"
			if g != nil {
				gs = fmt.Sprintf("passed=%d labelled=%d", g.passed, g.labelled)
			}
			fails = append(fails, Fail{"c06:metric-shared:" + class,
				fmt.Sprintf("%d records with metric keys %s (label values %s): the series has %s (same concatenation as %s)", w, fmt.Sprintf("%q", from[k]), c06Q(tupOf[k]), gs, other)})
		}
	}
	for _, k := range keys {
		if g := got[k]; want[k] == 0 && (g.passed > 0 || g.labelled > 0) {
			fails = append(fails, Fail{"c06:metric:phantom", fmt.Sprintf("series with label values %s counted but no record's metric keys render to it", c06Q(tupOf[k]))})
		}
	}
	return out, fails
}

// ---------------------------------------------------------------------------------------------

var c06Prof = map[int]time.Duration{}

func c06Run(c *Case) (string, []Fail) {
	c06Init()
	if os.Getenv("C06_PROF") != "" {
		t0 := time.Now()
		defer func() {
			c06Prof[c.Kind] += time.Since(t0)
			fmt.Fprintf(os.Stderr, "PROF kind=%d total=%v this=%v len=%d\n", c.Kind, c06Prof[c.Kind], time.Since(t0), len(c.S))
		}()
	}
	switch c.Kind {
	case 1:
		return c06RunRoute(c)
	case 2:
		return c06RunDisk(c)
	case 3:
		return c06RunList(c)
	case 4:
		return c06RunMetric(c)
	case 5:
		return c06RunE2E(c)
	case 6:
		return c06RunKey(c)
	case 7:
		return c06RunPooled(c)
	case 8:
		return c06RunConc(c)
	}
	return "badcase", nil
}

var _ = bytes.Equal

func init() { register(&Prop{ID: "C06", Gen: c06Gen, Run: c06Run, Child: c06Child}) }
