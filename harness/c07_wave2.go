package main

// C07 follow-up (wave-2 misses seeded/C07/4 and seeded/C07/5).
//
// (a) SENT-RECORD ACCOUNTING.  What a client sends as a record is described by a reference of its own
// (c07HeaderShape: "<" 1-3 digits ">1 " + anything, at least 32 bytes) - NOT by the reader's predicate
// syslogprotocol.TestRecordStart, which is part of the code under test.  A stream that consists of such lines
// (within C08's buffer bound) must hand exactly these lines to the parser, one by one and unaltered, and every one
// of them must be delivered or counted as dropped: Coq theorem C07_every_sent_record_accounted.  The family sweeps
// the byte after the header (all 255 values), NIL / empty / garbage timestamps, PRI of 1-3 digits, the position of the
// odd record (alone, first, last, between sentinels, twice in a row) and the fragmentation of the stream.
//
// (b) LABEL LENGTHS.  Metric-key and orchestration-key field values of every length in windows around 100, 128, 200,
// 256, 300 and the powers of two up to 4096, with 2-, 3- and 4-byte characters straddling every byte offset of the
// window: such values become Prometheus label values when the key set is first seen (base.MetricLabelValues).
// Oracle: no panic (the child process survives), the metrics stay gatherable, neighbours unchanged.

import (
	"bytes"
	"fmt"
	"strings"
)

// c07HeaderShape: the documented shape of a record start line, written down independently of recordtest.go
func c07HeaderShape(l []byte) bool {
	if len(l) < 32 || l[0] != '<' {
		return false
	}
	i := 1
	for i <= 3 && l[i] >= '0' && l[i] <= '9' {
		i++
	}
	return i > 1 && l[i] == '>' && l[i+1] == '1' && l[i+2] == ' '
}

// c07StreamText: the bytes the scripted connection delivers before it is closed (event codes as in c07RunStream)
func c07StreamText(frags [][]byte, codes []int64) []byte {
	var text []byte
	fi := 0
	for _, z := range codes {
		switch z {
		case c08Data, c08DataRen:
			if fi < len(frags) {
				text = append(text, frags[fi]...)
			}
			fi++
		case c08Timeout:
		default:
			return text
		}
	}
	return text
}

// c07SentLines: the lines of the stream when it is a sequence of complete sent records within the reader's bound
// (2*len+1+limit <= line buffer: the side condition of C08_connection_single_line), else nil
func c07SentLines(cf *c07Conf, stream []byte) [][]byte {
	if len(stream) == 0 || stream[len(stream)-1] != '\n' {
		return nil
	}
	lines := bytes.Split(stream[:len(stream)-1], []byte("\n"))
	for _, l := range lines {
		if !c07HeaderShape(l) || 2*len(l)+1+cf.MaxRec > cf.LineBuf {
			return nil
		}
	}
	return lines
}

// c07SentOracle: every line sent reached the parser as a record of its own, in order, byte for byte
func c07SentOracle(lines [][]byte, res *c07RunResult, what string) (fails []Fail, framedAsSent bool) {
	if res.status != "ok" {
		return nil, false
	}
	var counters string
	if f := strings.Split(res.final, "#"); len(f) >= 2 {
		counters = f[1]
	}
	for i, l := range lines {
		if i >= len(res.input) {
			fails = append(fails, Fail{"c07:record-lost", fmt.Sprintf("%d records were sent, %d reached the parser: record %d %s vanished - it is neither delivered nor counted as dropped (input counters passed,bytes,dropped,bytes,overflow,bytes = %s); %s",
				len(lines), len(res.input), i, c07Short(l), counters, what)})
			return fails, false
		}
		got := res.input[i]
		if bytes.Equal(got, l) {
			continue
		}
		if i+1 < len(lines) && bytes.HasPrefix(got, append(append([]byte(nil), l...), '\n')) {
			fails = append(fails, Fail{"c07:record-glued", fmt.Sprintf("record %d %s was sent as a line of its own (header \"<PRI>1 \") but was not recognised as a record: it was appended to record %d, which reached the parser as %s; the neighbour is altered and the record is neither delivered nor counted (%d sent, %d reached the parser); %s",
				i+1, c07Short(lines[i+1]), i, c07Short(got), len(lines), len(res.input), what)})
			return fails, false
		}
		fails = append(fails, Fail{"c07:record-altered", fmt.Sprintf("record %d was sent as %s and reached the parser as %s; %s", i, c07Short(l), c07Short(got), what)})
		return fails, false
	}
	if len(res.input) != len(lines) {
		fails = append(fails, Fail{"c07:record-invented", fmt.Sprintf("%d records were sent, %d reached the parser; %s", len(lines), len(res.input), what)})
		return fails, false
	}
	return nil, true
}

// ---------------------------------------------------------------- generators: sent lines

var c07ShortSentinelN int

// a well-formed record with a marker that fits the small limits (InputLogMaxRecordBytes 96)
func c07ShortSentinel() []byte {
	c07ShortSentinelN++
	return []byte(fmt.Sprintf("<166>1 2022-08-15T12:14:59Z web01 appServ 1 main.log - SENTINEL-s%d", c07ShortSentinelN))
}

// c07HeaderLine: "<PRI>1 " + after + the rest of a record; at least 32 bytes
func c07HeaderLine(pri, after string) []byte {
	l := []byte("<" + pri + ">1 " + after + " web02 appServ 77 main.log - m")
	for len(l) < 34 {
		l = append(l, 'm')
	}
	return l
}

// what may stand where the timestamp is expected
var c07OddTimes = []string{"-", "", "x", "--", "T12:15:00Z", " ", "\xff\xfe", "\x00", "2", "<13>1", "-2022-08-15T12:15:00Z", "\t", "é", "nil", "2022-08-15T12:15:0", "12:15:00"}

func c07GenSentLines(g *Gen, cfs ...*c07Conf) {
	pris := []string{"5", "13", "165"}
	for ci, cf := range cfs {
		sentinel := c07Sentinel
		if cf.MaxRec < 200 {
			sentinel = c07ShortSentinel
		}
		emit := func(class string, lines [][]byte, mode int) {
			stream := append(bytes.Join(lines, []byte("\n")), '\n')
			if mode == 1 && len(stream) > 400 {
				mode = 2
			}
			if c07SentLines(cf, stream) == nil {
				panic("c07: a generated sent-lines stream is outside the family: " + c07Short(stream))
			}
			frags, codes := c07Cut(g, stream, mode)
			c07EmitStream(g, class, cf, frags, codes)
		}
		// 1. the byte after the header: every value but the newline, PRI of 1, 2 and 3 digits in turn
		var group [][]byte
		n := 0
		for c := 0; c < 256; c++ {
			if c == '\n' {
				continue
			}
			after := string([]byte{byte(c)})
			if c%2 == 0 {
				after += "022-08-15T12:15:00Z"
			}
			group = append(group, c07HeaderLine(pris[c%3], after))
			if len(group) == 15 || c == 255 {
				lines := append(append([][]byte{sentinel()}, group...), sentinel())
				if c%2 == 1 {
					lines = lines[1:] // the first record of the connection is an odd one
				}
				if g.Thorough() || (n+ci)%2 == 0 {
					emit("sent-after-header-byte", lines, n%3)
				}
				group = nil
				n++
			}
		}
		// 2. NIL / empty / garbage timestamps x position x PRI width x fragmentation
		patterns := [][]int{{1}, {0, 1}, {1, 0}, {0, 1, 0}, {1, 1}, {0, 1, 1, 0}, {1, 0, 1}}
		for xi, t := range c07OddTimes {
			for pi, pat := range patterns {
				for wi, pri := range pris {
					for mode := 0; mode < 3; mode++ {
						if !g.Thorough() {
							// NIL timestamp: every position once per PRI width; the others: a rotating third
							if xi == 0 {
								if mode != (pi+wi)%3 {
									continue
								}
							} else if wi != (xi+pi)%3 || mode != (xi+2*pi)%3 || (xi+pi+ci)%4 != 0 {
								continue
							}
						}
						var lines [][]byte
						for _, k := range pat {
							if k == 1 {
								lines = append(lines, c07HeaderLine(pri, t))
							} else {
								lines = append(lines, sentinel())
							}
						}
						emit("sent-odd-timestamp", lines, mode)
					}
				}
			}
		}
		// 3. every PRI value (and leading zeros) as the header of a line of its own, with a full and with a NIL timestamp
		if g.Thorough() || ci == len(cfs)-1 {
			var all [][]byte
			for p := 0; p <= 200; p++ {
				ts := "2022-08-15T12:15:00Z"
				if p%4 == 3 {
					ts = "-"
				}
				all = append(all, c07HeaderLine(fmt.Sprint(p), ts))
			}
			for _, p := range []string{"00", "000", "007", "099", "300", "999"} {
				all = append(all, c07HeaderLine(p, "-"), c07HeaderLine(p, "2022-08-15T12:15:00Z"))
			}
			for i := 0; i < len(all); i += 30 {
				j := i + 30
				if j > len(all) {
					j = len(all)
				}
				emit("sent-every-pri", append(append([][]byte{sentinel()}, all[i:j]...), sentinel()), 2*(i/30)%3)
			}
		}
		// 4. random header lines: any PRI of 1-3 digits (also out of range: malformed, but a record of its own),
		// random bytes after the header
		nr := g.Pick(12, 300)
		for i := 0; i < nr; i++ {
			var lines [][]byte
			for k := g.R.Range(1, 7); len(lines) < k; {
				if g.R.Chance(1, 3) {
					lines = append(lines, sentinel())
					continue
				}
				pri := fmt.Sprint(g.R.PickInt([]int{0, 7, 9, 10, 99, 100, 191, 192, 999, g.R.Intn(1000)}))
				if g.R.Chance(1, 8) {
					pri = "0" + pri[:1]
				}
				rest := g.R.Bytes(g.R.Range(0, 40), []byte("<>1 -\x00\xff\x80aé0123456789:.TZ+"))
				lines = append(lines, c07HeaderLine(pri, string(rest)))
			}
			emit("sent-random-lines", lines, i%3)
		}
	}
}

// ---------------------------------------------------------------- generators: label lengths

// c07Straddle: an ASCII prefix of p bytes, then a 2-, a 3- and a 4-byte character: the characters cover the byte
// offsets p+1, p+3, p+4, p+6, p+7, p+8 - consecutive p cover every offset of a window
func c07Straddle(fill string, p int, form int) string {
	switch form {
	case 1: // 2-byte characters only
		return strings.Repeat(fill, p) + strings.Repeat("é", 8)
	case 2: // 3-byte characters only
		return strings.Repeat(fill, p) + strings.Repeat("世", 6)
	case 3: // 4-byte characters only
		return strings.Repeat(fill, p) + strings.Repeat("😀", 5)
	case 4: // no ASCII at all: p bytes of 2-byte characters (+1 ASCII when p is odd), then 3- and 4-byte ones
		return strings.Repeat("ä", p/2) + strings.Repeat(fill, p%2) + "€😀€😀"
	}
	return strings.Repeat(fill, p) + "ä€😀" + "-tail"
}

// c07KeyRecord: a record whose key field [field] holds v (host / source: metric keys; app: orchestration key and,
// after the "/", the metric key vhost)
func c07KeyRecord(field string, v string) []byte {
	r := c07Base()
	r.Source = "main.log"
	r.Msg = "key length sweep"
	switch field {
	case "host":
		r.Host = v
	case "source":
		r.Source = v
	case "app":
		r.App = v
	case "vhost":
		r.App = "appServ/" + v
	}
	return r.bytes()
}

func c07GenLabelLengths(g *Gen) {
	// limits large enough for the key values to arrive whole
	wide := c07SampleLike(400, 1400)
	big := c07SampleLike(400, 9000)
	two := c07TwoOutputs(200, 1400)
	for _, cf := range []*c07Conf{wide, big, two} {
		if !c07Accepted(cf) {
			panic("c07: a fixed configuration is not accepted by the loader: " + cf.describe())
		}
	}
	// minimal members: one key value of 201 bytes, valid UTF-8, whose last character lies across byte offset 200
	for _, f := range []string{"host", "app"} {
		c07EmitSeq(g, "label-length-minimal", wide, [][]byte{c07Sentinel(), c07KeyRecord(f, strings.Repeat("h", 199)+"ä"), c07Sentinel()})
	}
	type window struct{ lo, hi int }
	emitWindow := func(class string, cf *c07Conf, field string, w window, form int, per int) {
		var seq [][]byte
		flush := func() {
			if len(seq) > 0 {
				c07EmitSeq(g, class, cf, append(append([][]byte{c07Sentinel()}, seq...), c07Sentinel()))
				seq = nil
			}
		}
		for p := w.lo; p <= w.hi; p++ {
			rec := c07KeyRecord(field, c07Straddle("h", p, form))
			// first seen and, once per group, seen again (the cached key set)
			seq = append(seq, rec)
			if len(seq) == per {
				seq = append(seq, seq[0])
				flush()
			}
		}
		flush()
	}
	// windows around 100, 128, 200, 256, 300: the offsets a cap on label values is likely to sit at
	var windows []window
	if g.Thorough() {
		windows = []window{{40, 340}}
	} else {
		windows = []window{{91, 101}, {119, 129}, {190, 202}, {246, 258}, {291, 301}}
	}
	for _, w := range windows {
		emitWindow("label-length-host", wide, "host", w, 0, 13)
	}
	fields := []string{"source", "app", "vhost"}
	for fi, f := range fields {
		for wi, w := range windows {
			if !g.Thorough() && (w.lo < 150 || (fi+wi)%2 == 1) && !(w.lo == 190) {
				continue
			}
			emitWindow("label-length-"+f, wide, f, w, 0, 13)
		}
	}
	// other character widths at the cut: only 2-byte, only 3-byte, only 4-byte characters, no ASCII at all
	for form := 1; form <= 4; form++ {
		for _, w := range windows {
			if !g.Thorough() && w.lo != 190 && w.lo != 246 {
				continue
			}
			emitWindow("label-length-forms", wide, "host", w, form, 13)
			if g.Thorough() {
				emitWindow("label-length-forms", wide, "app", w, form, 13)
			}
		}
	}
	// the two-output configuration (metric key host, orchestration key app, tag from app[0:4])
	for _, f := range []string{"host", "app"} {
		for _, w := range windows {
			if !g.Thorough() && w.lo != 190 {
				continue
			}
			emitWindow("label-length-two-outputs", two, f, w, 0, 13)
		}
	}
	// powers of two up to 4096 (and 1000, 1024 ...): p such that the characters straddle 2^k
	for _, f := range []string{"host", "source", "app"} {
		for _, k := range []int{32, 64, 128, 256, 512, 1000, 1024, 2048, 4096} {
			d := 9
			if g.Thorough() {
				d = 14
			} else if f != "host" && k != 256 && k != 1024 {
				continue
			}
			emitWindow("label-length-power-of-two", big, f, window{k - d, k + 1}, 0, 12)
		}
	}
	// long values that are NOT valid UTF-8: clean-up and length together
	for _, p := range []int{100, 198, 199, 200, 255, 256} {
		v := strings.Repeat("h", p-3) + "\xff" + "ä" + "\xc3" + "€" + "\xe2\x82" + "😀"
		c07EmitSeq(g, "label-length-invalid", wide, [][]byte{c07Sentinel(), c07KeyRecord("host", v), c07KeyRecord("app", v), c07KeyRecord("host", v), c07Sentinel()})
	}
}

// the real sample configuration (kind 2): key values across the windows, production limits
func c07GenSampleLabelLengths(g *Gen) {
	const prodMsg, prodRec = 1 << 20, 1<<20 + 256
	for _, f := range []string{"host", "source", "app", "vhost"} {
		for _, lo := range []int{96, 124, 194, 250, 296, 1018} {
			if !g.Thorough() && lo != 194 && !(f == "host" && (lo == 250 || lo == 124)) {
				continue
			}
			seq := [][]byte{c07Sentinel()}
			for p := lo; p < lo+8; p++ {
				seq = append(seq, c07KeyRecord(f, c07Straddle("h", p, 0)))
			}
			seq = append(seq, seq[1], c07Sentinel())
			c07EmitSample(g, "sample-label-length", prodMsg, prodRec, seq)
		}
	}
}
