package main

// C05 — restart / reload against a backlog of chunk files WITH traffic at the instant of the start
// (follow-up to the missed seed C05/4: recovery of the backlog moved into the feeder goroutine).
//
// kind 7 "recovery race" (component level): the REAL hybrid buffer (hybridbuffer.Config.NewBufferer: bufferer,
//   outputFeeder, chunkManager, chunkOperator) over a queue directory holding n chunk files.  Every life does what
//   obase.PrepareSequentialPipeline does: Start(), consumer registered, then the "pipeline worker" (this harness)
//   calls Accept for k newly created chunks at once - while a recovery that did not finish inside Start() would still
//   be running.  The consumer records the order in which the window hands the chunks out (= transmission order on the
//   upstream connection), acknowledges nothing and hands everything back (leftovers), so that the next life recovers
//   n+k files, and so on.   Z = seed, n, k, window, lives, mode (0: Accept before the consumer exists; 1: consumer
//   running while the worker accepts; 2: as 1 with the k chunks spread over the first moments of the life).
//   Output "ok:rec:<ranges>;<ranges>..." = per life the creation ranks of the chunks in transmission order, as maximal
//   runs ("0-3001" = everything in creation order); predicted by Model/RecoveryOrder.v (run_recovery_case).
//   Oracle (independent of the model): chunk ids strictly increasing in transmission order in every life.
//
// kind 8 "live restart" (end to end, real agent between TCP client and fake upstream): upstream down, one connection
//   sends n records of one key set (one record per chunk, window 2: nearly all spilled); then
//   mode 0: stop, upstream healthy, start, and a client that connects the moment the listener is up and sends m records;
//   mode 1: the agent runs under run.Reloader; the connection STAYS OPEN and keeps sending m records while the
//           configuration is reloaded (ReloadableOrchestrator.reload: old pipelines shut down and saved, new ones
//           started over the queue directories, the surviving connection is served at once).
//   Z = seed, n, m, mode.  Output "ok:live:<ranges>" = arrival indices of the records in first-delivery order.
//   Oracle: c05FirstDeliveryOrder on the fake upstream's log (first deliveries per connection in arrival order, first
//   receipts of chunks in id order) - what the property states.

import (
	"fmt"
	"os"
	"runtime"
	"sort"
	"strings"
	"sync"
	"sync/atomic"
	"time"

	"github.com/c2h5oh/datasize"
	"github.com/relex/gotils/logger"
	"github.com/relex/gotils/promexporter/promreg"
	"github.com/relex/slog-agent/base"
	"github.com/relex/slog-agent/buffer/hybridbuffer"
	"github.com/relex/slog-agent/run"
)

// c05Ranges renders a sequence of numbers as maximal runs of consecutive values: 0,1,2,5,3,4 -> "0-2,5-5,3-4".
func c05Ranges(l []int) string {
	var sb strings.Builder
	for i := 0; i < len(l); {
		j := i
		for j+1 < len(l) && l[j+1] == l[j]+1 {
			j++
		}
		if i > 0 {
			sb.WriteByte(',')
		}
		fmt.Fprintf(&sb, "%d-%d", l[i], l[j])
		i = j + 1
	}
	return sb.String()
}

var c05RecCounter int64

func c05RecoveryCase(z []int64) (string, []Fail) {
	if len(z) != 6 || z[1] < 0 || z[1] > 20000 || z[2] < 0 || z[2] > 64 || z[3] < 1 || z[3] > 100000 ||
		z[4] < 1 || z[4] > 8 || z[5] < 0 || z[5] > 2 {
		return "badcase", nil
	}
	seed, n, k, w, lives, mode := int(z[0]), int(z[1]), int(z[2]), int(z[3]), int(z[4]), int(z[5])
	harness := func(err error) (string, []Fail) { return "err:harness", []Fail{{"c05:harness", err.Error()}} }
	e2eQuietLogs()
	root, err := os.MkdirTemp("", "c05r-")
	if err != nil {
		return harness(err)
	}
	defer os.RemoveAll(root)
	ep := e2eDefaultParams()
	ep.QueueLen = n + lives*k + 64
	ep.MemLen = w
	e2eApplyParams(ep)
	rng := NewRng(uint64(seed) ^ 0xC0507)
	cfg := &hybridbuffer.Config{RootPath: root, MaxBufSize: datasize.GB}
	match := func(id string) bool { return strings.HasSuffix(id, ".ff") }
	what := fmt.Sprintf("recovery race seed %d (backlog of %d chunk files, %d new chunks per life, window %d, mode %d)", seed, n, k, w, mode)

	// chunk ids in the format of output/shared/chunkidgen.go; rank = creation order
	stamp0 := time.Now().UnixNano()
	rankOf := map[string]int{}
	created := 0
	newChunk := func() base.LogChunk {
		id := fmt.Sprintf("%019d-%08d.ff", stamp0+int64(created)*1000, 0)
		rankOf[id] = created
		c := base.LogChunk{ID: id, Data: []byte(fmt.Sprintf("c05 chunk of record 0.%d", created)), Saved: false}
		created++
		return c
	}
	newBuf := func() base.ChunkBufferer {
		factory := promreg.NewMetricFactory(fmt.Sprintf("c05rec%d_", atomic.AddInt64(&c05RecCounter, 1)), nil, nil)
		return cfg.NewBufferer(logger.Root(), "ka", match, factory, false)
	}
	destroy := func(buf base.ChunkBufferer) bool {
		done := make(chan struct{})
		go func() { buf.Destroy(); close(done) }()
		select {
		case <-done:
		case <-time.After(40 * time.Second):
			return false
		}
		return buf.Stopped().Wait(20 * time.Second)
	}

	// life 0: the backlog is produced by the buffer itself (no consumer: everything is saved at Destroy)
	{
		buf := newBuf()
		buf.Start()
		for i := 0; i < n; i++ {
			buf.Accept(newChunk())
		}
		if !destroy(buf) {
			return "err:stop-hang", []Fail{{"c05:stop-hang", what + ": the first buffer did not stop"}}
		}
	}

	var fails []Fail
	var out []string
	for life := 1; life <= lives; life++ {
		expected := created + k
		buf := newBuf()
		var mu sync.Mutex
		var got []base.LogChunk
		consDone := make(chan bool, 1)
		startConsumer := func() {
			args := buf.RegisterNewConsumer()
			go func() {
				deadline := time.After(30 * time.Second)
				complete := true
			LOOP:
				for {
					mu.Lock()
					have := len(got)
					mu.Unlock()
					if have >= expected {
						break
					}
					select {
					case c, ok := <-args.InputChannel:
						if !ok {
							complete = false
							break LOOP
						}
						mu.Lock()
						got = append(got, c)
						mu.Unlock()
					case <-deadline:
						complete = false
						break LOOP
					}
				}
				// nothing was acknowledged: every chunk is a leftover and stays on disk for the next life
				mu.Lock()
				l := append([]base.LogChunk(nil), got...)
				mu.Unlock()
				for _, c := range l {
					args.OnChunkLeftover(c)
				}
				args.OnFinished()
				consDone <- complete
			}()
		}
		// the order of obase.PrepareSequentialPipeline: bufferer.Start(), consumer, processing worker
		buf.Start()
		if mode != 0 {
			startConsumer()
		}
		for j := 0; j < k; j++ {
			if mode == 2 && j > 0 {
				runtime.Gosched()
				for t0, d := time.Now(), time.Duration(rng.Intn(150))*time.Microsecond; time.Since(t0) < d; {
				}
			}
			buf.Accept(newChunk())
		}
		if mode == 0 {
			startConsumer()
		}
		complete := <-consDone
		if !destroy(buf) {
			return "err:stop-hang", []Fail{{"c05:stop-hang", fmt.Sprintf("%s: the buffer of life %d did not stop", what, life)}}
		}
		ranks := make([]int, len(got))
		for i, c := range got {
			r, ok := rankOf[c.ID]
			if !ok {
				r = -1
			}
			ranks[i] = r
		}
		out = append(out, c05Ranges(ranks))
		if !complete {
			fails = append(fails, Fail{"c05:stuck", fmt.Sprintf("%s, life %d: only %d of %d chunks reached the consumer within 30 s", what, life, len(got), expected)})
		}
		for i := 1; i < len(got); i++ {
			if got[i-1].ID >= got[i].ID {
				fails = append(fails, Fail{"c05:recovery-race:creation-order", fmt.Sprintf("%s, life %d (%d files recovered, new chunks are #%d..#%d): chunk #%d (id %s) is handed to the consumer, i.e. transmitted, as %d-th chunk BEFORE the older chunk #%d (id %s) which was still undelivered; transmission order %s",
					what, life, expected-k, expected-k, expected-1, ranks[i-1], got[i-1].ID, i, ranks[i], got[i].ID, c05Ranges(ranks))})
				break
			}
		}
	}
	if len(fails) > 0 && fails[0].Sig == "c05:stuck" {
		return "err:stuck", fails
	}
	return "ok:rec:" + strings.Join(out, ";"), fails
}

// c05StartReloadable starts the agent as `run.Run` does when reloading is enabled: run.Reloader and its
// ReloadableOrchestrator in front of the real orchestrator.
func c05StartReloadable(a *e2eAgent) (*run.Reloader, *run.ReloadableOrchestrator, error) {
	if a.running {
		return nil, nil, fmt.Errorf("e2e: agent already running")
	}
	reloader, err := run.NewReloaderFromConfigFile(a.configPath, "slogagent_")
	if err != nil {
		return nil, nil, fmt.Errorf("e2e: config rejected: %w", err)
	}
	a.gens = append(a.gens, &e2eGeneration{loader: reloader.Loader})
	a.tr.Log(e2eEvent{Kind: evAgentStart, Gen: len(a.gens)})
	orch := reloader.StartOrchestrator(logger.Root())
	rorc, ok := orch.(*run.ReloadableOrchestrator)
	if !ok {
		return nil, nil, fmt.Errorf("e2e: Reloader.StartOrchestrator returned %T", orch)
	}
	a.orch = orch
	addrs, shutdown := reloader.LaunchInputs(orch)
	a.addr = addrs[0]
	a.shutdownIn = shutdown
	a.running = true
	return reloader, rorc, nil
}

func c05LiveRestartCase(z []int64) (string, []Fail) {
	if len(z) != 4 || z[1] < 1 || z[1] > 20000 || z[2] < 1 || z[2] > 2000 || z[3] < 0 || z[3] > 1 {
		return "badcase", nil
	}
	seed, n, m, mode := int(z[0]), int(z[1]), int(z[2]), int(z[3])
	harness := func(err error) (string, []Fail) { return "err:harness", []Fail{{"c05:harness", err.Error()}} }
	dir, err := os.MkdirTemp("", "c05l-")
	if err != nil {
		return harness(err)
	}
	defer os.RemoveAll(dir)
	p := e2eDefaultParams()
	p.ChunkMaxRecords = 1
	p.MemLen = 2
	p.QueueLen = 3 * (n + m)
	p.BatchRecords = 64
	if mode == 1 {
		p.BatchRecords = 1 // the same generation of parameters serves the records that arrive during the reload
	}
	p.PingMs = 50
	p.RetryMs = 50
	e2eApplyParams(p)
	tr := newE2ETrace()
	srv, err := newFakeFluentd("out1", tr)
	if err != nil {
		return harness(err)
	}
	defer srv.Close()
	srv.SetTail(ffStep{Mode: ffRefuse})
	ag, err := e2eNewAgent(e2eConfig{Dir: dir, Keys: []string{"app"}, Outputs: []e2eOutput{{Name: "out1", Addr: srv.Addr(), Mode: c01Modes(seed), MaxBufSize: "1GB"}}}, tr)
	if err != nil {
		return harness(err)
	}
	var reloader *run.Reloader
	var rorc *run.ReloadableOrchestrator
	if mode == 1 {
		if reloader, rorc, err = c05StartReloadable(ag); err != nil {
			return harness(err)
		}
	} else if err := ag.Start(); err != nil {
		return harness(err)
	}
	mk := func(conn, seq, idx int) e2eRecord {
		return e2eMakeRecord(e2eStamp{Conn: conn, Seq: seq}, e2eRecordSpec{Class: rcGood, Pri: 14, App: "ka", Source: "x1", Host: "h1", Payload: "b", TimeIdx: idx})
	}
	var recs []e2eRecord
	for i := 0; i < n; i++ {
		recs = append(recs, mk(0, i, i))
	}
	cl, err := e2eDial(ag.Addr(), 0, tr)
	if err != nil {
		return harness(err)
	}
	_ = cl.Send(recs, []int{1 << 20})
	if !ag.WaitInputSeen(n, 30*time.Second) {
		return "err:input", []Fail{{"c05:harness", "input not consumed"}}
	}
	want := map[e2eStamp]bool{}
	arrival := map[e2eStamp]int{} // arrival index over the whole scenario
	for i, r := range recs {
		want[r.Stamp] = true
		arrival[r.Stamp] = i
	}
	var what string
	if mode == 0 {
		cl.Close(false)
		if err := ag.Stop(); err != nil {
			return "err:stop-hang", []Fail{{"c05:stop-hang", err.Error()}}
		}
		nfiles := len(ag.QueueFiles("out1"))
		what = fmt.Sprintf("live restart seed %d: restart with %d chunk files in the queue directory of one pipeline, a client connects as soon as the listener is up and sends %d records of the same key set", seed, nfiles, m)
		var late []e2eRecord
		for i := 0; i < m; i++ {
			late = append(late, mk(1, i, n+i))
			want[late[i].Stamp] = true
			arrival[late[i].Stamp] = n + i
		}
		q := e2eDefaultParams()
		q.ChunkMaxRecords, q.MemLen, q.QueueLen, q.BatchRecords, q.PingMs, q.RetryMs = 1, 2, 3*(n+m), 1, 50, 50
		e2eApplyParams(q) // no agent is running: from now on every record is flushed to its pipeline at once
		srv.SetTail(ffStep{Mode: ffHealthy})
		if err := ag.Start(); err != nil {
			return harness(err)
		}
		cl2, err := e2eDial(ag.Addr(), 1, tr)
		if err != nil {
			return harness(err)
		}
		_ = cl2.Send(late, nil)
		defer cl2.Close(false)
	} else {
		what = fmt.Sprintf("live reload seed %d: configuration reload with a backlog of %d chunks of one pipeline while the connection stays open and sends %d more records of the same key set", seed, n, m)
		var late []e2eRecord
		for i := 0; i < m; i++ {
			late = append(late, mk(0, n+i, n+i))
			want[late[i].Stamp] = true
			arrival[late[i].Stamp] = n + i
		}
		srv.SetTail(ffStep{Mode: ffHealthy})
		// the first part is on its way when the reload begins, the middle part follows record by record while the
		// reload runs (what arrives while the reload holds the lock waits in the socket and is served the moment the
		// new pipelines exist), the last part is sent the moment the reload has returned
		head, tail := m/3, m/3
		sendDone := make(chan struct{})
		reloaded := make(chan struct{})
		go func() {
			defer close(sendDone)
			_ = cl.Send(late[:head], nil)
			i := head
		MIDDLE:
			for ; i < m-tail; i++ {
				select {
				case <-reloaded:
					break MIDDLE
				default:
				}
				_ = cl.Send(late[i:i+1], nil)
				for t0 := time.Now(); time.Since(t0) < 150*time.Microsecond; {
				}
			}
			select {
			case <-reloaded:
			case <-time.After(40 * time.Second):
			}
			_ = cl.Send(late[i:], nil)
		}()
		go func() { rorc.VerifReload(); close(reloaded) }()
		select {
		case <-reloaded:
		case <-time.After(40 * time.Second):
			return "err:reload-hang", []Fail{{"c05:reload-hang", what + ": the reload did not complete within 40 s"}}
		}
		ag.gens = append(ag.gens, &e2eGeneration{loader: reloader.Loader})
		select {
		case <-sendDone:
		case <-time.After(20 * time.Second):
			return "err:input", []Fail{{"c05:harness", what + ": the client could not send its records"}}
		}
		if ok, _ := run.VerifReloadCounts(); ok < 1 {
			return harness(fmt.Errorf("%s: the reload was refused", what))
		}
		defer cl.Close(false)
	}
	delivered := srv.WaitAckedStamps(want, 40*time.Second)
	if err := ag.Stop(); err != nil {
		return "err:stop-hang", []Fail{{"c05:stop-hang", err.Error()}}
	}
	var fails []Fail
	if !delivered {
		fails = append(fails, Fail{"c05:stuck", fmt.Sprintf("%s: not every record has been delivered to the healthy upstream (missing e.g. %v)", what, c05Head(srv.MissingAcked(want), 5))})
	}
	chunks := srv.Chunks()
	c05FirstDeliveryOrder(chunks, what, &fails)
	// projection: arrival indices in first-delivery order
	seen := map[e2eStamp]bool{}
	var order []int
	for i := range chunks {
		for _, st := range chunks[i].Stamps() {
			if seen[st] {
				continue
			}
			seen[st] = true
			if a, ok := arrival[st]; ok {
				order = append(order, a)
			} else {
				order = append(order, -1)
			}
		}
	}
	if !delivered {
		return "err:stuck", fails
	}
	return "ok:live:" + c05Ranges(order), fails
}

func c05Head(l []e2eStamp, n int) []e2eStamp {
	sort.Slice(l, func(i, j int) bool {
		if l[i].Conn != l[j].Conn {
			return l[i].Conn < l[j].Conn
		}
		return l[i].Seq < l[j].Seq
	})
	if len(l) > n {
		return l[:n]
	}
	return l
}
