package main

// C09: syslog header parsing is faithful and every message is accounted for.
// Implementation under test: the real syslogparser.NewParser(...).Parse with the real
// LogAllocator (pooled and unpooled backing buffers) and LogInputCounterSet; counters are read
// through the metric factory (UpdateMetrics + LookupMetricFamily) as the package's own test does.
// defs.InputLogMax*/InputLogMinRecordBytesToPool are set per case from the case arguments.

import (
	"bytes"
	"fmt"
	"math/big"
	"regexp"
	"strings"
	"time"
	"unicode/utf8"

	"github.com/prometheus/client_golang/prometheus"
	"github.com/relex/gotils/logger"
	"github.com/relex/gotils/promexporter/promext"
	"github.com/relex/gotils/promexporter/promreg"
	"github.com/relex/slog-agent/base"
	"github.com/relex/slog-agent/defs"
	"github.com/relex/slog-agent/input/sysloginput"
	"github.com/relex/slog-agent/input/syslogparser"
	"github.com/relex/slog-agent/util"
)

// ---- the oracle's own tables (RFC 5424 numerical codes -> the names slog-agent documents) ----
var c09Facilities = strings.Fields("kern user mail daemon auth syslog lpr news uucp cron authpriv ftp ntp audit alert clock " +
	"local0 local1 local2 local3 local4 local5 local6 local7")
var c09Severities = strings.Fields("emerg alert crit err warn notice info debug")

var c09Fields = []string{"facility", "level", "time", "host", "app", "pid", "source", "extradata", "log"}

type c09Parser struct {
	parser  base.LogParser
	counter *base.LogInputCounterSet
	mf      *promreg.MetricFactory
}

type c09Env struct {
	schema  base.LogSchema
	alloc   *base.LogAllocator
	locs    []base.LogFieldLocator
	spare   base.LogFieldLocator
	parsers map[string]*c09Parser
	created int
	compos  map[string]*c09Parser // sysloginput.Config.NewParser: the parser followed by (harmless) extractions
}

var c09env *c09Env

func c09Setup() *c09Env {
	if c09env != nil {
		return c09env
	}
	logger.SetLogLevel(logger.FatalLevel) // the parser warns on every malformed / over-long record
	// a schema in a different order than the parser sets the fields, with one field the parser does not know
	schema := base.MustNewLogSchema([]string{"log", "level", "spare", "facility", "time", "host", "app", "pid", "source", "extradata"})
	e := &c09Env{schema: schema, alloc: base.NewLogAllocator(schema, 1), parsers: map[string]*c09Parser{}, compos: map[string]*c09Parser{}}
	for _, n := range c09Fields {
		e.locs = append(e.locs, schema.MustCreateFieldLocator(n))
	}
	e.spare = schema.MustCreateFieldLocator("spare")
	c09env = e
	return e
}

func (e *c09Env) parserFor(mapping []string) (*c09Parser, error) {
	key := fmt.Sprintf("%d:%q", len(mapping), mapping)
	if p, ok := e.parsers[key]; ok {
		return p, nil
	}
	p, err := e.newParser(mapping)
	if err != nil {
		return nil, err
	}
	if len(e.parsers) > 2000 { // bound the memory of very long runs
		e.parsers = map[string]*c09Parser{}
	}
	e.parsers[key] = p
	return p, nil
}

// newParser creates a parser instance with its own counter set and metric factory
func (e *c09Env) newParser(mapping []string) (*c09Parser, error) {
	e.created++
	mf := promreg.NewMetricFactory(fmt.Sprintf("c09p%d_", e.created), nil, nil)
	counter := base.NewLogInputCounter(mf)
	parser, err := syslogparser.NewParser(logger.Root(), e.alloc, e.schema, mapping, counter)
	if err != nil {
		return nil, err
	}
	return &c09Parser{parser: parser, counter: counter, mf: mf}, nil
}

// compositeFor: the parser as the agent builds it (sysloginput.Config.NewParser = syslogParser + extraction
// transforms run right after it); the one extraction empties the field "spare", which the parser never sets
func (e *c09Env) compositeFor(mapping []string) (*c09Parser, error) {
	key := fmt.Sprintf("%q", mapping)
	if p, ok := e.compos[key]; ok {
		return p, nil
	}
	cfg := &sysloginput.Config{}
	if err := util.UnmarshalYamlString("type: syslog\naddress: localhost:0\nlevelMapping: [x]\nextractions:\n  - type: delFields\n    keys: [spare]\n", cfg); err != nil {
		return nil, err
	}
	cfg.LevelMapping = mapping
	e.created++
	mf := promreg.NewMetricFactory(fmt.Sprintf("c09c%d_", e.created), nil, nil)
	counter := base.NewLogInputCounter(mf)
	parser, err := cfg.NewParser(logger.Root(), e.alloc, e.schema, counter)
	if err != nil {
		return nil, err
	}
	if len(e.compos) > 2000 {
		e.compos = map[string]*c09Parser{}
	}
	p := &c09Parser{parser: parser, counter: counter, mf: mf}
	e.compos[key] = p
	return p, nil
}

// counters after UpdateMetrics: passed, passedBytes, dropped, droppedBytes, overflow, overflowBytes
func (p *c09Parser) read() [6]uint64 {
	p.counter.UpdateMetrics()
	get := func(name string) uint64 {
		return uint64(promext.SumMetricValues(p.mf.LookupMetricFamily(name)))
	}
	getL := func(name string) uint64 {
		return uint64(promext.SumMetricValues2(p.mf.LookupMetricFamily(name), prometheus.Labels{"label": "overflow"}))
	}
	return [6]uint64{get("passed_records_total"), get("passed_record_bytes_total"),
		get("dropped_records_total"), get("dropped_record_bytes_total"),
		getL("labelled_records_total"), getL("labelled_record_bytes_total")}
}

func c09Digest(s []byte) string {
	var s1, s2 uint64
	for _, b := range s {
		s1 += uint64(b)
		s2 += s1
	}
	return fmt.Sprintf("%d.%d.%d", len(s), s1, s2)
}

func c09Hex(b []byte) string { return fmt.Sprintf("%x", b) }

var c09StrictPRI = regexp.MustCompile(`^<(0|[1-9][0-9]{0,2})>1$`)
var c09LiberalPRI = regexp.MustCompile(`^<([+-]?[0-9]+)>1$`)

// priOf: (value, strict RFC 5424 form, form accepted by a liberal integer reader) of the first token
func c09PriOf(tok []byte) (val int, strict, liberal bool) {
	if len(tok) > 64 {
		return 0, false, false
	}
	m := c09LiberalPRI.FindSubmatch(tok)
	if m == nil {
		return 0, false, false
	}
	n, ok := new(big.Int).SetString(string(m[1]), 10)
	if !ok || n.Sign() < 0 || n.Cmp(big.NewInt(191)) > 0 {
		return 0, false, false
	}
	return int(n.Int64()), c09StrictPRI.Match(tok), true
}

// largest rune boundary of m (Go's canonical segmentation: every invalid byte is a segment of
// its own) at or before limit
func c09BoundaryAtOrBefore(m []byte, limit int) int {
	i := 0
	for i < len(m) {
		w := 1
		if m[i] >= utf8.RuneSelf {
			_, w = utf8.DecodeRune(m[i:])
		}
		if i+w > limit {
			break
		}
		i += w
	}
	return i // bytes i..limit-1 (if any) belong to a rune that straddles the limit
}

func c09Short(b []byte) string {
	if len(b) > 160 {
		return fmt.Sprintf("%q...(%d bytes)...%q", b[:80], len(b), b[len(b)-40:])
	}
	return fmt.Sprintf("%q", b)
}

func c09Input(c *Case) (input []byte, mapping []string, compact bool) {
	if c.Kind == 0 {
		input = c.S[0]
		for _, m := range c.S[1:] {
			mapping = append(mapping, string(m))
		}
		return input, mapping, false
	}
	input = c09Big(c)
	return input, nil, true
}

// head ++ unit^reps ++ tail of the compact kinds
func c09Big(c *Case) []byte {
	reps := int(c.Z[3])
	input := make([]byte, 0, len(c.S[0])+len(c.S[1])*reps+len(c.S[2]))
	input = append(input, c.S[0]...)
	for i := 0; i < reps; i++ {
		input = append(input, c.S[1]...)
	}
	return append(input, c.S[2]...)
}

func c09Run(c *Case) (out string, fails []Fail) {
	env := c09Setup()
	maxMsg, maxRec, minPool := int(c.Z[0]), int(c.Z[1]), int(c.Z[2])
	defs.InputLogMaxMessageBytes = maxMsg
	defs.InputLogMaxRecordBytes = maxRec
	defs.InputLogMinRecordBytesToPool = minPool
	if c.Kind == 3 || c.Kind == 4 {
		return c09RunX(env, c)
	}
	if c.Kind == 2 {
		// a sequence of messages through ONE new parser instance; counters (cumulative) after every message
		p, err := env.newParser(nil)
		if err != nil {
			return "cfgerr", []Fail{{"c09:newparser", "NewParser rejects the default level mapping: " + err.Error()}}
		}
		base := p.read()
		prev := base
		var outs []string
		table := append([][]byte{c09Big(c)}, c.S[3:]...)
		idx := c.Z[4:]
		for i, k := range idx {
			o, f := c09One(env, p, nil, base, &prev, table[k], c09Severities, true, fmt.Sprintf("message %d of the sequence %v through one parser (message table in the case), ", i+1, idx))
			outs = append(outs, o)
			fails = append(fails, f...)
		}
		return "seq:" + strings.Join(outs, "/"), fails
	}
	input, mapping, compact := c09Input(c)
	p, err := env.parserFor(mapping)
	if err != nil {
		if len(mapping) == 0 || len(mapping) == 8 {
			fails = append(fails, Fail{"c09:newparser", fmt.Sprintf("NewParser rejects a level mapping of %d names: %v", len(mapping), err)})
		}
		return "cfgerr", fails
	}
	if len(mapping) != 0 && len(mapping) != 8 {
		fails = append(fails, Fail{"c09:newparser", fmt.Sprintf("NewParser accepts a level mapping of %d names", len(mapping))})
	}
	levels := c09Severities
	if len(mapping) == 8 {
		levels = mapping
	}
	before := p.read()
	prev := before
	o, f := c09One(env, p, nil, before, &prev, input, levels, compact, "")
	fails = append(fails, f...)
	// the same message through the parser as the agent configures it (composite parser of sysloginput)
	if !compact {
		cp, err := env.compositeFor(levels)
		if err != nil {
			fails = append(fails, Fail{"c09:composite", "sysloginput.Config.NewParser fails: " + err.Error()})
			return o, fails
		}
		cbefore := cp.read()
		cprev := cbefore
		o2, f2 := c09One(env, cp, nil, cbefore, &cprev, input, levels, compact, "through sysloginput.Config.NewParser, ")
		if o2 != o {
			fails = append(fails, Fail{"c09:composite-differs", fmt.Sprintf("sysloginput's composite parser gives %.200s, the syslog parser alone %.200s for input %s", o2, o, c09Short(input))})
		}
		fails = append(fails, f2...)
	}
	return o, fails
}

// c09One parses one message with parser p. base0: counter reading the printed counters are relative
// to; prev: reading before this message (updated). Returns the canonical output and the oracle's verdicts.
// x: nil, or the extraction transforms and allocator of a composite parser under test (c09_composite.go).
func c09One(env *c09Env, p *c09Parser, x *c09XOpt, base0 [6]uint64, prev *[6]uint64, input []byte, levels []string, compact bool, where string) (out string, fails []Fail) {
	maxMsg, maxRec, minPool := defs.InputLogMaxMessageBytes, defs.InputLogMaxRecordBytes, defs.InputLogMinRecordBytesToPool
	fail := func(sig, format string, args ...interface{}) {
		fails = append(fails, Fail{sig, where + fmt.Sprintf(format, args...) + fmt.Sprintf(" [maxMsg=%d maxRec=%d minPool=%d input=%s]", maxMsg, maxRec, minPool, c09Short(input))})
	}

	// ---- run the implementation ----
	given := append([]byte{}, input...)
	stamp := time.Unix(1500000000, 12345)
	var record *base.LogRecord
	panicMsg := ""
	func() {
		defer func() {
			if r := recover(); r != nil {
				panicMsg = fmt.Sprint(r)
			}
		}()
		record = p.parser.Parse(given, stamp)
	}()
	after := p.read()
	var d, cum [6]uint64
	for i := range d {
		d[i] = after[i] - prev[i]
		cum[i] = after[i] - base0[i]
	}
	*prev = after
	counters := fmt.Sprintf("%d,%d,%d,%d,%d,%d", cum[0], cum[1], cum[2], cum[3], cum[4], cum[5])

	var got [][]byte // the nine fields, copied before the record is recycled
	unescaped := false
	if record != nil {
		for _, loc := range env.locs {
			got = append(got, []byte(strings.Clone(loc.Get(record.Fields))))
		}
		unescaped = record.Unescaped
		if env.spare.Get(record.Fields) != "" {
			fail("c09:spare-field", "a field the parser does not own was set to %q", env.spare.Get(record.Fields))
		}
		if record.RawLength != len(input) {
			fail("c09:accounting", "RawLength %d for an input of %d bytes", record.RawLength, len(input))
		}
		if x != nil {
			for i := 0; i < x.outputs; i++ { // every output releases its reference
				x.alloc.Release(record)
			}
		} else {
			env.alloc.Release(record)
		}
	}
	switch {
	case panicMsg != "":
		out = "panic:" + counters
	case record == nil:
		out = "drop:" + counters
	default:
		var sb strings.Builder
		sb.WriteString("ok:")
		for i := 0; i < 8; i++ {
			sb.WriteString(c09Hex(got[i]))
			sb.WriteByte(',')
		}
		if compact {
			sb.WriteString(c09Digest(got[8]))
		} else {
			sb.WriteString(c09Hex(got[8]))
		}
		if unescaped {
			sb.WriteString(",1;")
		} else {
			sb.WriteString(",0;")
		}
		sb.WriteString(counters)
		out = sb.String()
	}

	// ---- the property's own oracle (independent of the Coq model) ----
	if !bytes.Equal(given, input) {
		fail("c09:input-modified", "Parse modified the caller's input buffer")
	}
	parts := bytes.SplitN(input, []byte(" "), 8)
	if panicMsg != "" {
		sig := "c09:panic-other"
		if len(parts) > 1 && string(parts[0]) == "<" {
			sig = "c09:panic-first-token-lt"
		}
		fail(sig, "Parse panics: %s", panicMsg)
	}
	// accounting: exactly one of passed / dropped, with the byte length; passed iff a record is returned
	n := uint64(len(input))
	passOK := d[0] == 1 && d[1] == n && d[2] == 0 && d[3] == 0
	dropOK := d[0] == 0 && d[1] == 0 && d[2] == 1 && d[3] == n
	if !(passOK && record != nil) && !(dropOK && record == nil) {
		fail("c09:accounting", "record returned=%v but counters moved by passed=%d/%d bytes dropped=%d/%d bytes for an input of %d bytes",
			record != nil, d[0], d[1], d[2], d[3], n)
	}
	if panicMsg != "" {
		return out, fails
	}
	pri, strict, liberal := 0, false, false
	if len(parts) >= 1 {
		pri, strict, liberal = c09PriOf(parts[0])
	}
	wellFormed := len(input) >= 32 && len(parts) == 8 && strict
	if wellFormed && record == nil && !(x != nil && x.mayDrop(pri, parts, levels)) {
		fail("c09:wellformed-dropped", "a well-formed line with PRI %d is dropped", pri)
	}
	if !liberal && record != nil {
		fail("c09:badpri-passed", "a line whose first token %s is not <PRI>1 with PRI in 0..191 is passed", c09Short(parts[0]))
	}
	truncated := false
	if record != nil {
		if len(parts) != 8 {
			fail("c09:field-mismatch", "a record is returned for a line with only %d space-separated parts", len(parts))
			return out, fails
		}
		// a returned record has been through all extraction transforms: the fields of their delFields are empty
		deleted := func(i int) bool { return x != nil && x.deleted[i] }
		for i := range got {
			if deleted(i) && len(got[i]) != 0 {
				fail("c09:field-mismatch", "field %s is %s after an extraction that deletes it", c09Fields[i], c09Short(got[i]))
			}
		}
		if liberal {
			if want := c09Facilities[pri/8]; string(got[0]) != want && !deleted(0) {
				fail("c09:facility", "PRI %d: facility %q, expected %q", pri, got[0], want)
			}
			if want := levels[pri%8]; string(got[1]) != want && !deleted(1) {
				fail("c09:level", "PRI %d: level %q, expected %q", pri, got[1], want)
			}
		}
		for i := 1; i <= 6; i++ {
			if !bytes.Equal(got[i+1], parts[i]) && !deleted(i+1) {
				fail("c09:field-mismatch", "field %s is %s, the line has %s", c09Fields[i+1], c09Short(got[i+1]), c09Short(parts[i]))
			}
		}
		m, log := parts[7], got[8]
		if deleted(8) {
			truncated = len(m) > maxMsg
		} else if len(m) <= maxMsg {
			// not over-long: the message itself; a record at the record limit may have been cut by the
			// listener, the parser may then drop an invalid UTF-8 tail (after the last ASCII byte)
			if !bytes.Equal(log, m) {
				if len(input) < maxRec || utf8.Valid(m) {
					fail("c09:message", "message is %s, the line has %s", c09Short(log), c09Short(m))
				} else if len(log) > len(m) {
					fail("c09:message", "cleaned message is longer than the message of the line")
				}
			}
		} else {
			truncated = true
			k := c09BoundaryAtOrBefore(m, maxMsg)
			switch {
			case len(log) > maxMsg:
				fail("c09:cut-too-long", "over-long message (%d bytes) is cut to %d bytes, limit %d", len(m), len(log), maxMsg)
			case len(log) > k:
				fail("c09:cut-mid-rune", "over-long message (%d bytes) is cut to %d bytes, inside the rune %x that starts at %d; result ends with %x",
					len(m), len(log), m[k:min(len(m), k+4)], k, log[max(0, len(log)-4):])
			case utf8.Valid(m[:k]) && !bytes.Equal(log, m[:k]):
				fail("c09:cut-content", "over-long message (%d bytes, valid UTF-8 up to the boundary %d) is cut to %s", len(m), k, c09Short(log))
			}
		}
	}
	// an over-long message of the accepted form that an extraction drops has been cut and counted by the parser
	if x != nil && record == nil && len(input) >= 32 && len(parts) == 8 && liberal && len(parts[7]) > maxMsg {
		truncated = true
	}
	// overflow counted once, with the byte length, exactly for truncated messages
	if truncated && !(d[4] == 1 && d[5] == n) {
		fail("c09:overflow-count", "over-long message: overflow counter moved by %d/%d bytes, expected 1/%d", d[4], d[5], n)
	}
	if !truncated && (d[4] != 0 || d[5] != 0) {
		fail("c09:overflow-count", "overflow counter moved by %d/%d bytes without a truncated message", d[4], d[5])
	}
	return out, fails
}

func init() { register(&Prop{ID: "C09", Gen: c09Gen, Run: c09Run}) }
