package main

// C16, the config holder: every typed component of a configuration file (input, orchestration, transform and
// nested step, buffer, output, rewriter) is decoded from its YAML node by base/bconfig ConfigHolder[C].UnmarshalYAML
// (model: coq/Model/ConfigHolder.v).  This file holds
//   - the families of YAML node shapes (degenerate, almost valid, valid in exotic spellings, random),
//   - kind 2: a shape decoded into a ConfigHolder[C] by yaml.v3 with the loader's settings (direct call of the real code),
//   - kind 3: a shape written at a typed component site of a valid configuration, loaded by run.ParseConfigFile,
//   - the null-like items (kind 0, Z[1..2]) and alias duplicates (kind 0, Z[3]) of otherwise ordinary files.

import (
	"fmt"
	"strings"

	"github.com/relex/slog-agent/base/bconfig"
	"github.com/relex/slog-agent/run"
	"github.com/relex/slog-agent/util"
	"github.com/relex/slog-agent/util/yamlinternal"
	"gopkg.in/yaml.v3"
)

// ---------------------------------------------------------------- component classes

type c16Class struct {
	name   string
	types  func() []string
	direct func(doc string) (isNil bool, typ string, err error) // the real code; may panic
	dec    func(node *yaml.Node) bool                           // answer of NodeDecodeKnownFields for the node's type
}

func c16MkClass[C bconfig.BaseConfig](name string) c16Class {
	return c16Class{
		name:  name,
		types: func() []string { return bconfig.VerifC16ConfigTypeNames[C]() },
		direct: func(doc string) (bool, string, error) {
			var target struct {
				Anchors run.AnchorsConfig       `yaml:"anchors"`
				X       bconfig.ConfigHolder[C] `yaml:"x"`
			}
			if err := util.UnmarshalYamlString(doc, &target); err != nil {
				return false, "", err
			}
			if any(target.X.Value) == nil {
				return true, "", nil
			}
			return false, target.X.Value.GetType(), nil
		},
		dec: func(node *yaml.Node) (ok bool) {
			if len(node.Content) < 2 {
				return false
			}
			cfg, found := bconfig.VerifC16NewConfig[C](node.Content[1].Value)
			if !found {
				return false
			}
			defer func() {
				if recover() != nil {
					ok = false
				}
			}()
			return yamlinternal.NodeDecodeKnownFields(node, cfg) == nil
		},
	}
}

var c16Classes = []c16Class{
	c16MkClass[bconfig.LogInputConfig]("input"),
	c16MkClass[bconfig.LogTransformConfig]("transform"),
	c16MkClass[bconfig.OrchestratorConfig]("orchestration"),
	c16MkClass[bconfig.ChunkBufferConfig]("buffer"),
	c16MkClass[bconfig.LogOutputConfig]("output"),
	c16MkClass[bconfig.LogRewriterConfig]("rewriter"),
}

func c16ClassByName(name string) *c16Class {
	for i := range c16Classes {
		if c16Classes[i].name == name {
			return &c16Classes[i]
		}
	}
	return nil
}

// ---------------------------------------------------------------- shapes -> nodes -> tokens

func c16ShapeDoc(shape string) string { return c16AnchorPrelude + "x: " + shape + "\n" }

// c16ShapeNode parses the document with yaml.v3 and returns the node standing at "x:" (nil: not YAML, or absent)
func c16ShapeNode(shape string) *yaml.Node {
	var doc yaml.Node
	if err := yaml.Unmarshal([]byte(c16ShapeDoc(shape)), &doc); err != nil {
		return nil
	}
	if doc.Kind != yaml.DocumentNode || len(doc.Content) != 1 || doc.Content[0].Kind != yaml.MappingNode {
		return nil
	}
	top := doc.Content[0]
	if len(top.Content) != 4 || top.Content[2].Value != "x" {
		return nil // the shape broke out of its place (e.g. a second top-level key)
	}
	return top.Content[3]
}

func c16ResolveAlias(n *yaml.Node) *yaml.Node {
	for depth := 0; n.Kind == yaml.AliasNode && n.Alias != nil && depth < 64; depth++ {
		n = n.Alias
	}
	return n
}

// encodeNode: pre-order (kind, short tag, value, number of children, children); an alias has its target as only child
func c16EncodeNode(w *tokw, n *yaml.Node, depth int) bool {
	if depth > 64 {
		return false // a node that contains itself
	}
	w.n(int(n.Kind))
	w.s(n.ShortTag())
	w.s(n.Value)
	if n.Kind == yaml.AliasNode {
		if n.Alias == nil {
			return false
		}
		w.n(1)
		return c16EncodeNode(w, n.Alias, depth+1)
	}
	w.n(len(n.Content))
	for _, ch := range n.Content {
		if !c16EncodeNode(w, ch, depth+1) {
			return false
		}
	}
	return true
}

// c16HolderTokens: the S arguments of a kind 2 / kind 3 case
func c16HolderTokens(shape string, cl *c16Class) ([][]byte, bool) {
	node := c16ShapeNode(shape)
	if node == nil {
		return nil, false
	}
	w := &tokw{}
	w.s(shape)
	w.s(cl.name)
	w.strlist(cl.types())
	w.b(cl.dec(c16ResolveAlias(node)))
	if !c16EncodeNode(w, node, 0) {
		return nil, false
	}
	return w.toks, true
}

// ---------------------------------------------------------------- kind 2: direct call

// c16HolderDirect runs the real decoding of the shape into a ConfigHolder of the class.
func c16HolderDirect(cl *c16Class, shape string) (out string, fails []Fail) {
	var isNil bool
	var typ string
	var err error
	panicked, msg := c16Recover(func() { isNil, typ, err = cl.direct(c16ShapeDoc(shape)) })
	desc := fmt.Sprintf("component class %s given as the YAML value %q (document: %q)", cl.name, shape, c16ShapeDoc(shape))
	switch {
	case panicked:
		what := "other"
		if strings.Contains(msg, "index out of range") {
			what = "index"
		} else if strings.Contains(msg, "nil pointer") {
			what = "nil"
		}
		return "panic:", []Fail{{"c16:holder-panic:" + what, "ConfigHolder.UnmarshalYAML panics instead of returning an error value: " + msg + " -- " + desc}}
	case err != nil:
		return "herr:", nil
	case isNil:
		return "hnil:", nil
	}
	return "hok:" + typ, nil
}

func c16HolderRunDirect(cs *Case) (string, []Fail) {
	if len(cs.S) < 2 {
		return "badcase", nil
	}
	cl := c16ClassByName(string(cs.S[1]))
	if cl == nil || c16ShapeNode(string(cs.S[0])) == nil {
		return "badcase", nil
	}
	return c16HolderDirect(cl, string(cs.S[0]))
}

// ---------------------------------------------------------------- kind 3: a shape at a site of a file

var c16GhostShapes = []string{"~", "null", "", "*c16nul", "!!null ~", "Null", "NULL"}

func c16BaseByID(dir string, id int64) *cConfig {
	switch id {
	case 0:
		return c16Sample(dir)
	case 1:
		return c16Minimal(dir)
	case 2:
		return c16NestedBase(dir)
	}
	return nil
}

const c16NumBases = 3

// c16NestedBase: the minimal configuration with every kind of nested step list (block in if in switch, extraction
// steps of the input) so that component sites exist at depth 1, 2 and 3.
func c16NestedBase(dir string) *cConfig {
	c := c16Minimal(dir)
	leaf := func() *cTransform { return &cTransform{Type: "unescape", Key: "log"} }
	c.Transforms = []*cTransform{
		leaf(),
		{Type: "switch", Cases: []cCase{
			{Match: []cMatchEntry{me("log", "start", "a")}, Then: []*cTransform{
				{Type: "if", Match: []cMatchEntry{me("log", "contain", "b")}, Steps: []*cTransform{
					{Type: "block", Steps: []*cTransform{leaf(), leaf()}},
					leaf(),
				}},
			}},
			{Match: []cMatchEntry{me("log", "start", "c")}, Then: []*cTransform{leaf()}},
		}},
		{Type: "block", Steps: []*cTransform{leaf()}},
	}
	if len(c.Inputs) > 0 && c.Inputs[0].Type == "syslog" {
		c.Inputs[0].Extractions = []*cTransform{
			{Type: "if", Match: []cMatchEntry{me("log", "start", "x")}, Steps: []*cTransform{leaf()}},
			leaf(),
		}
	}
	return c
}

// c16ComponentClasses lists the class of every typed component of the configuration in rendering order
// (the numbering of c16RenderOpts.RawAt).
func c16ComponentClasses(c *cConfig) []string {
	var out []string
	var walk func(l []*cTransform)
	walk = func(l []*cTransform) {
		for _, t := range l {
			out = append(out, "transform")
			switch t.Type {
			case "block", "if":
				walk(t.Steps)
			case "switch":
				for _, cs := range t.Cases {
					walk(cs.Then)
				}
			}
		}
	}
	for _, in := range c.Inputs {
		out = append(out, "input")
		if in.Type == "syslog" {
			walk(in.Extractions)
		}
	}
	if c.Orch.Type != "-" {
		out = append(out, "orchestration")
	}
	walk(c.Transforms)
	for _, p := range c.Pairs {
		if p.Buf.Type != "-" {
			out = append(out, "buffer")
		}
		if p.Out.Type != "-" {
			out = append(out, "output")
			if p.Out.Type == "fluentdForward" {
				for _, rw := range p.Out.Rewrites {
					for range rw.Rewriters {
						out = append(out, "rewriter")
					}
				}
			}
		}
	}
	return out
}

// c16FileShapeCase: the configuration and rendering options of a kind 3 case (S[0] shape; Z = base id, site number)
func c16FileShapeCase(dir string, cs *Case) (*cConfig, c16RenderOpts, bool) {
	if len(cs.S) < 2 || len(cs.Z) < 2 {
		return nil, c16RenderOpts{}, false
	}
	base := c16BaseByID(dir, cs.Z[0])
	if base == nil {
		return nil, c16RenderOpts{}, false
	}
	classes := c16ComponentClasses(base)
	at := int(cs.Z[1])
	if at < 1 || at > len(classes) || classes[at-1] != string(cs.S[1]) || c16ShapeNode(string(cs.S[0])) == nil {
		return nil, c16RenderOpts{}, false
	}
	return base, c16RenderOpts{RawAt: at, RawShape: string(cs.S[0])}, true
}

// c16CaseOpts: the rendering options of a kind 0 case (Z = orchestrator flag, ghost position, ghost shape, alias duplicate)
func c16CaseOpts(cs *Case) c16RenderOpts {
	var o c16RenderOpts
	if cs.Kind != 0 {
		return o
	}
	if len(cs.Z) >= 3 && cs.Z[1] > 0 && cs.Z[2] >= 0 && int(cs.Z[2]) < len(c16GhostShapes) {
		o.GhostAt, o.GhostShape = int(cs.Z[1]), c16GhostShapes[cs.Z[2]]
	}
	if len(cs.Z) >= 4 && cs.Z[3] > 0 {
		o.DupAt = int(cs.Z[3])
	}
	return o
}

// ---------------------------------------------------------------- the shape families

// c16Shapes: flow-style YAML values. Every one is tried for every component class; whether a shape names a
// component is decided by the model from the node (and by the real code), not here.
func c16Shapes(cl *c16Class, allTypes []string, thorough bool) []string {
	s := []string{
		// no children at all
		`{}`, `[]`, `foo`, `""`, `''`, `0`, `true`, `1.5`, `type`, `!!str {}`, `!!map {}`, `!foo {}`, `&c16x {}`, `&c16y []`, `!!binary dHlwZQ==`,
		// sequences of 1, 2, 3, ... children; the first two may look like a type declaration
		`[type]`, `[type, unescape]`, `[type, unescape, key, log]`, `[x]`, `[x, y]`, `[x, y, z]`, `[type, nosuchtype]`, `[[type, unescape]]`,
		`[[]]`, `[{}]`, `[~]`, `[~, ~]`, `[{}, {}]`, `[{type: unescape}]`,
		// mappings with 1, 2, 3 pairs that are not a type declaration
		`{key: log}`, `{key: log, type: unescape}`, `{Type: unescape}`, `{TYPE: unescape, key: log}`, `{type}`, `{key}`, `{a: 1, b: 2, c: 3}`,
		`{{}: {}}`, `{[]: []}`, `{? [type] : unescape}`, `{? {type: unescape} : x}`, `{~: ~}`, `{"": ""}`,
		// the type declaration with a degenerate value
		`{type: ~}`, `{type: null}`, `{type: ""}`, `{type: {}}`, `{type: []}`, `{type: [unescape]}`, `{type: {type: unescape}}`, `{type: nosuchtype}`,
		`{type: 5}`, `{type: true}`, `{type: "unescape "}`, `{type: Unescape}`, `{type: !!binary dW5lc2NhcGU=}`,
		// duplicate keys
		`{type: unescape, type: unescape, key: log}`, `{type: unescape, key: log, key: log}`, `{type: unescape, type: nosuchtype}`, `{type: nosuchtype, type: unescape, key: log}`,
		// anchors and aliases
		`*c16emp`, `*c16eseq`, `*c16str`, `*c16unesc`, `*c16typeonly`, `*c16keylog`, `*c16tname`, `{type: *c16tname, key: log}`, `{*c16tname : x}`,
		`&c16z {type: unescape, key: log}`, `{type: &c16t unescape, key: log}`, `{&c16k type: unescape, key: log}`,
		// merge keys
		`{<<: *c16typeonly, key: log}`, `{type: unescape, <<: *c16keylog}`, `{<<: *c16unesc}`, `{<<: [*c16typeonly, *c16keylog]}`, `{<<: *c16emp}`, `{<<: {}}`,
		`{type: unescape, <<: *c16emp, key: log}`, `{<<: *c16nul}`,
		// exotic spellings of a type declaration
		`!!map {type: unescape, key: log}`, `!foo {type: unescape, key: log}`, `{"type": unescape, key: log}`, `{'type': "unescape", key: log}`,
		`{!!str type: unescape, key: log}`, `{!foo type: unescape, key: log}`, `{? type : unescape, key: log}`, `{type: !!str unescape, key: log}`,
		`{type: unescape, key: log}`, `{type: unescape}`, `{type: unescape, c16BogusKey: 1}`, `{type: unescape, key: [log]}`, `{type: unescape, key: {}}`,
		// null-like (yaml.v3 does not call the holder)
		`~`, `null`, `Null`, `NULL`, ``, `!!null ~`, `*c16nul`, `&c16n ~`,
		// components with degenerate components inside
		`{type: if, match: {log: x}, then: [{}]}`, `{type: if, match: {log: x}, then: [[]]}`, `{type: if, match: {log: x}, then: [~]}`, `{type: if, match: {log: x}, then: {}}`,
		`{type: if, match: {log: x}, then: [{type: unescape, key: log}]}`, `{type: if, match: {log: x}, then: [*c16unesc, *c16emp]}`,
		`{type: block, steps: [{}]}`, `{type: block, steps: [{type: block, steps: [{type: block, steps: [{}]}]}]}`, `{type: block, steps: [[type]]}`,
		`{type: switch, cases: [{match: {log: x}, then: [{}]}]}`, `{type: switch, cases: [{}]}`, `{type: switch, cases: {}}`,
		`{type: syslog, address: "localhost:0", levelMapping: [a, b, c, d, e, f, g, h], extractions: [{}]}`,
		`{type: syslog, address: "localhost:0", levelMapping: [a, b, c, d, e, f, g, h], extractions: [{type: unescape, key: log}]}`,
		`{type: fluentdForward, serialization: {environmentFields: [], hiddenFields: [], rewriteFields: {log: [{}]}}}`,
		`{type: fluentdForward, serialization: {environmentFields: [], hiddenFields: [], rewriteFields: {log: [{type: unescape}, *c16emp]}}}`,
		`{type: fluentdForward, serialization: {environmentFields: [], hiddenFields: [], rewriteFields: {log: [{type: unescape}]}}}`,
		`{type: singleton, tag: x}`, `{type: byKeySet, keys: [app], tag: x}`, `{type: hybridBuffer, rootPath: /tmp/c16-unused, maxBufSize: 1GB}`,
		`{type: inline, field: log}`, `{type: copy}`,
	}
	// every registered type of every class: alone, with an unknown key, as a sequence, with the key not first
	own := map[string]bool{}
	for _, t := range cl.types() {
		own[t] = true
	}
	for _, t := range allTypes {
		s = append(s, fmt.Sprintf(`{type: %s}`, t))
		if own[t] || thorough {
			s = append(s, fmt.Sprintf(`[type, %s]`, t), fmt.Sprintf(`{type: %s, c16BogusKey: 1}`, t))
		}
		if thorough {
			s = append(s, fmt.Sprintf(`{c16BogusKey: 1, type: %s}`, t), fmt.Sprintf(`{type: [%s]}`, t), fmt.Sprintf(`{type: {%s: 1}}`, t))
		}
	}
	return s
}

// c16CoreShapes: one representative per node structure the holder distinguishes (no child, one child, two children
// that are / are not a type declaration, through an alias, nested): these go to EVERY site in the quick tier.
var c16CoreShapes = map[string]bool{`{}`: true, `[]`: true, `foo`: true, `""`: true, `[type]`: true, `[type, unescape]`: true, `[x]`: true,
	`{key: log}`: true, `{type}`: true, `{type: {}}`: true, `{type: nosuchtype}`: true, `*c16emp`: true, `*c16eseq`: true, `&c16x {}`: true,
	`!!str {}`: true, `{<<: *c16typeonly, key: log}`: true, `{<<: *c16emp}`: true, `{type: unescape, c16BogusKey: 1}`: true,
	`{type: if, match: {log: x}, then: [{}]}`: true, `{type: block, steps: [[type]]}`: true}

// c16RandomShape: a random small YAML value over a vocabulary that makes type declarations likely
func c16RandomShape(r *Rng, depth int, types []string) string {
	scalars := []string{"type", "type", "unescape", "key", "log", "foo", "~", `""`, "5", "<<", "*c16emp", "*c16unesc", "*c16typeonly", "*c16nul", "*c16tname", "*c16keylog"}
	scalar := func() string {
		if r.Intn(4) == 0 && len(types) > 0 {
			return types[r.Intn(len(types))]
		}
		return scalars[r.Intn(len(scalars))]
	}
	key := func() string {
		k := scalar()
		if strings.HasPrefix(k, "*") {
			return k + " " // "*a:" would read the colon into the anchor name
		}
		if k == `""` || k == "~" {
			return k
		}
		return k
	}
	kind := r.Intn(10)
	if depth >= 3 {
		kind = 0
	}
	switch {
	case kind < 3:
		return scalar()
	case kind < 5:
		n := r.PickInt([]int{0, 1, 1, 2, 2, 3, 4})
		parts := make([]string, n)
		for i := range parts {
			parts[i] = c16RandomShape(r, depth+1, types)
		}
		return "[" + strings.Join(parts, ", ") + "]"
	default:
		n := r.PickInt([]int{0, 1, 1, 2, 2, 3})
		parts := make([]string, n)
		for i := range parts {
			k := key()
			if i == 0 && r.Intn(2) == 0 {
				k = "type"
			}
			parts[i] = k + ": " + c16RandomShape(r, depth+1, types)
		}
		return "{" + strings.Join(parts, ", ") + "}"
	}
}

func c16AllTypeNames() []string {
	seen := map[string]bool{}
	var out []string
	for i := range c16Classes {
		for _, t := range c16Classes[i].types() {
			if !seen[t] {
				seen[t] = true
				out = append(out, t)
			}
		}
	}
	return out
}

// c16NamesNoComponent: the value is neither null-like nor a type declaration of the class that decodes. Used only to
// SELECT the values written into files (kind 3) - independently of what the holder under test answers, so that a
// holder that starts to accept (or skip) more values does not shrink the family; the verdict is the model's.
func c16NamesNoComponent(cl *c16Class, shape string) bool {
	node := c16ShapeNode(shape)
	if node == nil {
		return false
	}
	node = c16ResolveAlias(node)
	if node.ShortTag() == "!!null" {
		return false
	}
	if len(node.Content) >= 2 && node.Content[0].Kind == yaml.ScalarNode && node.Content[0].Value == "type" && cl.dec(node) {
		return false
	}
	return true
}

// c16HolderGen emits the holder families. emit(class, kind, S, Z).
func c16HolderGen(g *Gen, dir string, emit func(class string, kind int, toks [][]byte, z []int64)) {
	allTypes := c16AllTypeNames()
	// ---- kind 2: every shape for every class, decoded directly ----
	rejected := map[string][]string{} // class -> values that name no component of the class (selection only: see c16NamesNoComponent)
	nhand := map[string]int{}
	for i := range c16Classes {
		cl := &c16Classes[i]
		shapes := c16Shapes(cl, allTypes, g.Thorough())
		nhand[cl.name] = len(shapes)
		for k := 0; k < g.Pick(40, 2000); k++ {
			shapes = append(shapes, c16RandomShape(g.R, 0, allTypes))
		}
		seen := map[string]bool{}
		for k, sh := range shapes {
			if seen[sh] {
				continue
			}
			seen[sh] = true
			toks, ok := c16HolderTokens(sh, cl)
			if !ok {
				continue
			}
			emit("holder-"+cl.name, 2, toks, nil)
			if k < nhand[cl.name] && c16NamesNoComponent(cl, sh) {
				rejected[cl.name] = append(rejected[cl.name], sh)
			}
		}
	}
	// ---- kind 3: the rejected shapes at every typed component site of the base configurations ----
	// quick tier: the core shapes at every site of every base, all hand-written shapes at the first site of each class of the
	// minimal base; thorough: all values at the first site of each class of every base, a rotating quarter of them at the other sites
	for id := int64(0); id < c16NumBases; id++ {
		base := c16BaseByID(dir, id)
		firstOfClass := map[string]bool{}
		for at, cname := range c16ComponentClasses(base) {
			cl := c16ClassByName(cname)
			first := !firstOfClass[cname]
			firstOfClass[cname] = true
			for k, sh := range rejected[cname] {
				if !g.Thorough() && !c16CoreShapes[sh] && !(id == 1 && first) {
					continue
				}
				if g.Thorough() && !c16CoreShapes[sh] && !first && (k+at)%4 != 0 {
					continue
				}
				toks, ok := c16HolderTokens(sh, cl)
				if !ok {
					continue
				}
				emit("file-shape-"+cname, 3, toks, []int64{id, int64(at + 1)})
			}
		}
	}
	// ---- kind 0: null-like items at every list position / absent section; alias duplicates of every transform ----
	for id := int64(0); id < c16NumBases; id++ {
		mk := func() *cConfig { return c16BaseByID(dir, id) }
		_, w := mk().RenderWith(c16RenderOpts{GhostAt: -1})
		for pos := 1; pos <= w.pos; pos++ {
			for gi := range c16GhostShapes {
				if !g.Thorough() && id != 1 && (pos+gi)%len(c16GhostShapes) != 0 {
					continue // quick: one shape per position (rotating) on the larger bases, all shapes on the minimal one
				}
				emit("null-item", 0, mk().Encode(), []int64{0, int64(pos), int64(gi), 0})
			}
		}
		// a section given as null: orchestration, buffer, output (the AST says "absent")
		for which := 0; which < 3; which++ {
			c := mk()
			switch which {
			case 0:
				c.Orch.Type = "-"
			case 1:
				c.Pairs[0].Buf.Type = "-"
			case 2:
				c.Pairs[0].Out.Type = "-"
			}
			_, w := c.RenderWith(c16RenderOpts{GhostAt: -1})
			// the absent section is the ghost position that writes a "section: shape" line
			for pos := 1; pos <= w.pos; pos++ {
				text, _ := c.RenderWith(c16RenderOpts{GhostAt: pos, GhostShape: "C16MARK"})
				if !strings.Contains(text, ": C16MARK") {
					continue
				}
				for gi := range c16GhostShapes {
					cc := mk()
					switch which {
					case 0:
						cc.Orch.Type = "-"
					case 1:
						cc.Pairs[0].Buf.Type = "-"
					case 2:
						cc.Pairs[0].Out.Type = "-"
					}
					emit("null-section", 0, cc.Encode(), []int64{0, int64(pos), int64(gi), 0})
				}
			}
		}
		// alias duplicates: transform number k anchored, an identical copy after it written as *alias
		_, wt := mk().RenderWith(c16RenderOpts{})
		for k := 1; k <= wt.tf; k++ {
			c := mk()
			if !c16DuplicateTransform(c, k) {
				continue
			}
			emit("alias-duplicate", 0, c.Encode(), []int64{0, 0, 0, int64(k)})
		}
	}
}

// c16DuplicateTransform inserts a copy of the k-th transform (rendering order, 1-based) right after it.
func c16DuplicateTransform(c *cConfig, k int) bool {
	n := 0
	var walk func(l *[]*cTransform) bool
	walk = func(l *[]*cTransform) bool {
		for i := 0; i < len(*l); i++ {
			t := (*l)[i]
			n++
			if n == k {
				cp := *t
				nl := append([]*cTransform{}, (*l)[:i+1]...)
				nl = append(nl, &cp)
				nl = append(nl, (*l)[i+1:]...)
				*l = nl
				return true
			}
			switch t.Type {
			case "block", "if":
				if walk(&t.Steps) {
					return true
				}
			case "switch":
				for j := range t.Cases {
					if walk(&t.Cases[j].Then) {
						return true
					}
				}
			}
		}
		return false
	}
	for i := range c.Inputs {
		if c.Inputs[i].Type == "syslog" && walk(&c.Inputs[i].Extractions) {
			return true
		}
	}
	return walk(&c.Transforms)
}

// c16HolderCorpus: minimal members of the families: the smallest node of each structure for every class, directly
// and at the first site of the class in the minimal configuration.
func c16HolderCorpus() []string {
	var out []string
	minimal := []string{`{}`, `[]`, `foo`, `[type]`, `[type, unescape]`, `*c16emp`, `&c16x {}`, `!!str {}`, `{type}`, `{type: {}}`, `{key: log}`,
		`{type: if, match: {log: x}, then: [{}]}`, `{type: block, steps: [[type]]}`, `~`, `*c16nul`, `{type: unescape, <<: *c16keylog}`}
	classes := c16ComponentClasses(c16Minimal("/tmp/c16-corpus"))
	for i := range c16Classes {
		cl := &c16Classes[i]
		first := 0
		for at, cn := range classes {
			if cn == cl.name {
				first = at + 1
				break
			}
		}
		for _, sh := range minimal {
			toks, ok := c16HolderTokens(sh, cl)
			if !ok {
				continue
			}
			out = append(out, (&Case{Kind: 2, S: toks}).Line())
			if first > 0 && c16NamesNoComponent(cl, sh) {
				out = append(out, (&Case{Kind: 3, S: toks, Z: []int64{1, int64(first)}}).Line())
			}
		}
	}
	return out
}
