package main

// C16 child process: evaluates ONE configuration after another on the real
// slog-agent code.  It runs in a separate process because logger.Panic in a
// worker goroutine, logger.Fatalf or a runtime fault would otherwise kill the
// harness.  Protocol (stdin -> stdout, line based):
//
//	parent:  <id> <yaml path> <records path>
//	child:   M <id> <marker>        progress markers, flushed immediately
//	         E <id>                 the case is finished
//
// markers: verify=ok|err|panic  construct=ok|panic  run=ok|panic  orch=ok|panic
// A child that dies (or panics in a place it cannot recover from) simply
// stops answering; the parent derives the stage from the last marker.

import (
	"bufio"
	"fmt"
	"os"
	"runtime/pprof"
	"strings"
	"time"

	"github.com/relex/gotils/channels"
	"github.com/relex/gotils/logger"
	"github.com/relex/gotils/promexporter/promreg"
	"github.com/relex/slog-agent/base"
	"github.com/relex/slog-agent/base/bconfig"
	"github.com/relex/slog-agent/base/bsupport"
	"github.com/relex/slog-agent/defs"
	"github.com/relex/slog-agent/run"
)

type c16Emit func(marker string)

func c16Recover(f func()) (panicked bool, msg string) {
	defer func() {
		if r := recover(); r != nil {
			panicked = true
			msg = fmt.Sprint(r)
			if len(msg) > 200 {
				msg = msg[:200]
			}
			msg = strings.NewReplacer("\n", " ", "\t", " ", "|", "/").Replace(msg)
		}
	}()
	f()
	return false, ""
}

// c16DiscardWorker is the override consumer (as test/ does with its chunk saving worker): it
// consumes every chunk handed over by the bufferer.
type c16DiscardWorker struct {
	args    base.ChunkConsumerArgs
	stopped *channels.SignalAwaitable
}

func newC16DiscardWorker(args base.ChunkConsumerArgs) base.ChunkConsumer {
	return &c16DiscardWorker{args: args, stopped: channels.NewSignalAwaitable()}
}

func (w *c16DiscardWorker) Start()                      { go w.run() }
func (w *c16DiscardWorker) Stopped() channels.Awaitable { return w.stopped }

func (w *c16DiscardWorker) run() {
	defer w.args.OnFinished()
	defer w.stopped.Signal()
	sig := w.args.InputClosed.Channel()
	for {
		select {
		case chunk, ok := <-w.args.InputChannel:
			if !ok {
				return
			}
			w.args.OnChunkConsumed(chunk)
		case <-sig:
			return
		}
	}
}

func c16NeverSignal() channels.Awaitable { return channels.NewSignalAwaitable() }

// c16EvalFile runs the whole property on one configuration file.
func c16EvalFile(yamlPath string, records [][]byte, withOrchestrator bool, emit c16Emit) {
	var conf run.Config
	var schema base.LogSchema
	var verr error
	if p, msg := c16Recover(func() { conf, schema, _, verr = run.ParseConfigFile(yamlPath) }); p {
		emit("verify=panic " + msg)
		return
	}
	if verr != nil {
		emit("verify=err " + strings.NewReplacer("\n", " ", "\t", " ", "|", "/").Replace(verr.Error()))
		return
	}
	emit("verify=ok")

	// ---- stage A: direct construction in this goroutine (as test/pipeline.go preparePipeline) ----
	mf := promreg.NewMetricFactory("c16_", nil, nil)
	var (
		allocator    *base.LogAllocator
		inputCounter *base.LogInputCounterSet
		parsers      []base.LogParser
		procCounter  *base.LogProcessCounterSet
		transforms   []base.LogTransformFunc
		serializers  []base.LogSerializer
		chunkMakers  []base.LogChunkMaker
	)
	if p, msg := c16Recover(func() {
		allocator = base.NewLogAllocator(schema, len(conf.OutputBuffersPairs))
		inputCounter = base.NewLogInputCounter(mf.AddOrGetPrefix("input_", nil, nil))
		for _, ic := range conf.Inputs {
			parser, perr := ic.Value.NewParser(logger.Root(), allocator, schema, inputCounter)
			if perr != nil {
				// run/loader.go LaunchInputs: logger.Fatalf("input[%d]: %s") on a constructor error
				panic("input constructor error after verification: " + perr.Error())
			}
			parsers = append(parsers, parser)
		}
		outputNames := make([]string, 0, len(conf.OutputBuffersPairs))
		for _, pair := range conf.OutputBuffersPairs {
			outputNames = append(outputNames, pair.Name)
		}
		// run/loader.go NewLoaderFromConfigFile
		metricKeyLocators := schema.MustCreateFieldLocators(conf.MetricKeys)
		procCounter = base.NewLogProcessCounter(mf.AddOrGetPrefix("process_", nil, nil), schema, metricKeyLocators, outputNames)
		transforms = bsupport.NewTransformsFromConfig(conf.Transformations, schema, logger.Root(), procCounter)
		for _, pair := range conf.OutputBuffersPairs {
			serializers = append(serializers, pair.OutputConfig.Value.NewSerializer(logger.Root(), schema, "tag"))
			chunkMakers = append(chunkMakers, pair.OutputConfig.Value.NewChunkMaker(logger.Root(), "tag"))
			// the real forwarder (constructed, never started: nothing is sent anywhere)
			ch := make(chan base.LogChunk)
			fargs := base.ChunkConsumerArgs{InputChannel: ch, InputClosed: c16NeverSignal(),
				OnChunkConsumed: func(base.LogChunk) {}, OnChunkLeftover: func(base.LogChunk) {}, OnFinished: func() {}}
			_ = pair.OutputConfig.Value.NewForwarder(logger.Root(), fargs, mf.AddOrGetPrefix("output_", []string{"output"}, []string{pair.Name}))
		}
	}); p {
		emit("construct=panic " + msg)
		return
	}
	emit("construct=ok")

	// ---- stage A: records through parser -> metric key set -> transforms -> serializers -> chunk makers ----
	if p, msg := c16Recover(func() {
		now := time.Unix(1600000000, 0)
		for _, parser := range parsers {
			for _, line := range records {
				record := parser.Parse(line, now)
				if record == nil {
					continue
				}
				icounter := procCounter.SelectMetricKeySet(record)
				if bsupport.RunTransforms(record, transforms) == base.DROP {
					icounter.CountRecordDrop(record)
					allocator.Release(record)
					continue
				}
				icounter.CountRecordPass(record)
				for i, ser := range serializers {
					stream := ser.SerializeRecord(record)
					procCounter.CountStream(i, stream)
					if chunk := chunkMakers[i].WriteStream(stream); chunk != nil {
						procCounter.CountChunk(i, chunk)
					}
				}
			}
		}
		for i, cm := range chunkMakers {
			if chunk := cm.FlushBuffer(); chunk != nil {
				procCounter.CountChunk(i, chunk)
			}
		}
		inputCounter.UpdateMetrics()
		procCounter.UpdateMetrics()
	}); p {
		emit("run=panic " + msg)
		return
	}
	emit("run=ok")

	if !withOrchestrator {
		return
	}
	// ---- stage B: the real orchestrator with an override consumer (as test/agent.go), records through a sink.
	// Panics of the pipeline goroutines kill this process: the parent sees the missing marker. ----
	if p, msg := c16Recover(func() {
		omf := promreg.NewMetricFactory("c16o_", nil, nil)
		alloc2 := base.NewLogAllocator(schema, len(conf.OutputBuffersPairs))
		args := bconfig.PipelineArgs{
			Schema:            schema,
			Deallocator:       alloc2,
			MetricKeyLocators: schema.MustCreateFieldLocators(conf.MetricKeys),
			TransformConfigs:  conf.Transformations,
			OutputBufferPairs: conf.OutputBuffersPairs,
			NewConsumerOverride: func(parentLogger logger.Logger, name string, decoder base.ChunkDecoder, cargs base.ChunkConsumerArgs) base.ChunkConsumer {
				return newC16DiscardWorker(cargs)
			},
			SendAllAtEnd: true,
		}
		orch := conf.Orchestration.Value.StartOrchestrator(logger.Root(), args, omf)
		ic2 := base.NewLogInputCounter(omf.AddOrGetPrefix("input_", nil, nil))
		now := time.Unix(1600000000, 0)
		for n, icfg := range conf.Inputs {
			parser, perr := icfg.Value.NewParser(logger.Root(), alloc2, schema, ic2)
			if perr != nil {
				panic("input constructor error after verification: " + perr.Error())
			}
			sink := orch.NewSink("c16", base.ClientNumber(n+1))
			batch := make([]*base.LogRecord, 0, len(records))
			for k, line := range records {
				if k >= 8 && k%4 != 0 {
					continue // stage A has seen every record; a subset keeps the number of pipelines small
				}
				if record := parser.Parse(line, now); record != nil {
					batch = append(batch, record)
				}
			}
			sink.Accept(batch)
			sink.Close()
		}
		orch.Shutdown()
	}); p {
		emit("orch=panic " + msg)
		return
	}
	emit("orch=ok")
}

func c16ChildMain(args []string) {
	if len(args) >= 1 && args[0] == "corpus" {
		// prints the corpus case lines (see c16CorpusConfigs); buffer roots under /tmp/c16-corpus
		for _, cf := range c16CorpusConfigs("/tmp/c16-corpus") {
			fmt.Println((&Case{Kind: 0, S: cf.Encode(), Z: []int64{1}}).Line())
		}
		return
	}
	if len(args) >= 1 && args[0] == "corpus-holder" {
		// minimal members of the holder families (corpus/C16/holder.txt)
		for _, l := range c16HolderCorpus() {
			fmt.Println(l)
		}
		return
	}
	if len(args) >= 2 && args[0] == "render" {
		// debugging aid: print the configuration file(s) and records of the case lines in a file
		data, _ := os.ReadFile(args[1])
		for _, line := range strings.Split(string(data), "\n") {
			line = strings.TrimSpace(line)
			if line == "" || strings.HasPrefix(line, "#") {
				continue
			}
			c, err := parseCaseLine(line)
			if err != nil {
				continue
			}
			if c.Kind == 2 && len(c.S) >= 2 {
				fmt.Printf("# ---- component class %s decoded from the document\n%s", c.S[1], c16ShapeDoc(string(c.S[0])))
				continue
			}
			if c.Kind == 3 {
				if base, o, ok := c16FileShapeCase("/tmp/c16-render", c); ok {
					text, _ := base.RenderWith(o)
					fmt.Printf("# ---- a %s component given as %q\n%s", c.S[1], c.S[0], text)
				}
				continue
			}
			confs, derr := decodeConfigs(c.Kind, c.S)
			if derr != nil {
				fmt.Println("# undecodable case:", derr)
				continue
			}
			for i, cf := range confs {
				text, _ := cf.RenderWith(c16CaseOpts(c))
				fmt.Printf("# ---- configuration %d\n%s", i+1, text)
				if len(args) >= 3 {
					os.WriteFile(fmt.Sprintf("%s-%d.yml", args[2], i+1), []byte(cf.Render()), 0o644)
					os.WriteFile(fmt.Sprintf("%s-%d.rec", args[2], i+1), []byte(strings.Join(c16Records(cf), "\n")+"\n"), 0o644)
				}
			}
		}
		return
	}
	logger.SetLogLevel(logger.FatalLevel)
	if pf := os.Getenv("C16_PROF"); pf != "" {
		f, _ := os.Create(pf)
		pprof.StartCPUProfile(f)
		defer pprof.StopCPUProfile()
	}
	// small knobs: nothing here needs the production sizes
	defs.IntermediateFlushInterval = 5 * time.Millisecond
	defs.BufferMaxNumChunksInQueue = 64
	defs.BufferMaxNumChunksInMemory = 8
	defs.InputLogMaxMessageBytes = 8192
	defs.InputLogMaxRecordBytes = defs.InputLogMaxMessageBytes + 256
	in := bufio.NewReaderSize(os.Stdin, 1<<16)
	out := bufio.NewWriter(os.Stdout)
	for {
		line, err := in.ReadString('\n')
		line = strings.TrimSpace(line)
		if line != "" {
			f := strings.Fields(line)
			if len(f) >= 3 {
				id := f[0]
				emit := func(m string) {
					fmt.Fprintf(out, "M %s %s\n", id, m)
					out.Flush()
				}
				var records [][]byte
				if data, rerr := os.ReadFile(f[2]); rerr == nil {
					for _, l := range strings.Split(string(data), "\n") {
						if l != "" {
							records = append(records, []byte(l))
						}
					}
				}
				withOrch := len(f) < 4 || f[3] != "noorch"
				c16EvalFile(f[1], records, withOrch, emit)
				fmt.Fprintf(out, "E %s\n", id)
				out.Flush()
			}
		}
		if err != nil {
			return
		}
	}
}
