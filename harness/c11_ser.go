package main

// C11, kind 9: Datadog chunks whose records come from the output's REAL serializer (Config.NewSerializer) at RUN
// time, from field values carried by the case - control characters, quotes, backslashes, HTML characters,
// U+2028/U+2029, invalid UTF-8 at the start / middle / end of the value, several records per chunk.
// (follow-up to the wave-4 miss seeded/C11/9: a hand-written marshaller that copies control characters raw makes
// the whole gzipped JSON array undecodable.)  No byte limit, so the model predicts the chunking from the record
// limit and the flushes; the canonical payload field is the number of items of the decoded JSON array.
// Oracle: every chunk gunzips and parses (encoding/json) as an array of flat string maps, one per record of the
// chunk, in write order (timestamps are distinct per record), and a message that is valid UTF-8 comes back exactly.

import (
	"encoding/hex"
	"encoding/json"
	"fmt"
	"strconv"
	"strings"
	"time"
	"unicode/utf8"

	"github.com/relex/slog-agent/base"
	"github.com/relex/slog-agent/output/datadog"
	"github.com/relex/slog-agent/output/shared"
)

func c11SerTimestamp(i int) time.Time { return time.Unix(int64(1600000000+i), 0) }

func c11RunSerialized(c *Case) (out string, fails []Fail) {
	if len(c.Z) < 4 || len(c.S) < 1 || c.Z[0] != 3 || c.Z[2] != 0 {
		return "badcase", nil
	}
	maxr, frozen := int(c.Z[1]), c.Z[3]
	msgs := c.S[1:]
	log := c11Logger()
	var streams [][]byte
	var written []int // index of the message of every written record
	var results []*base.LogChunk
	var mk *c11Maker
	panicked := func() (p interface{}) {
		defer func() {
			if r := recover(); r != nil {
				p = r
			}
		}()
		ser := (&datadog.Config{}).NewSerializer(log, shared.TestSchema, "env:verif")
		var errOut string
		mk, errOut = c11NewMaker(3, maxr, 0, string(c.S[0]))
		if mk == nil {
			panic("no maker: " + errOut)
		}
		if frozen == 1 {
			if gen, ok := shared.VerifPackerIDGenerator(mk.maker); ok {
				gen.SetState(1<<63-1, 0)
			}
		}
		next := 0
		for _, z := range c.Z[4:] {
			if z == 0 {
				results = append(results, mk.maker.FlushBuffer())
				continue
			}
			msg := ""
			if next < len(msgs) {
				msg = string(msgs[next])
			}
			rec := shared.TestSchema.NewTestRecord2(c11SerTimestamp(next), base.LogFields{"h1", "app", msg, "", "K"})
			st := ser.SerializeRecord(rec)
			// the stream may be valid until the next SerializeRecord only: WriteStream must have taken it over by then
			results = append(results, mk.maker.WriteStream(st))
			streams = append(streams, append([]byte{}, st...))
			written = append(written, next)
			next++
		}
		results = append(results, mk.maker.FlushBuffer())
		return nil
	}()
	if panicked != nil {
		return "panic", []Fail{{"c11:panic", fmt.Sprintf("serializer / chunk maker panics (%v) on %s", panicked, c11Short(c.Line()))}}
	}
	items, fails := c11Judge(c, mk, frozen, streams, results)
	// ---- record-level oracle on the decoded JSON
	fail := func(sig, format string, a ...interface{}) {
		if len(fails) < 8 {
			fails = append(fails, Fail{sig, fmt.Sprintf(format, a...) + " [case " + c11Short(c.Line()) + "]"})
		}
	}
	at := 0
	for _, ch := range results {
		if ch == nil {
			continue
		}
		d := c11DecodeDatadog(ch.Data)
		if d.err != "" {
			fail("c11:undecodable", "chunk %s does not gunzip: %s", ch.ID, d.err)
			return "ok:" + strings.Join(items, ";"), fails
		}
		var arr []map[string]string
		if err := json.Unmarshal(d.payload, &arr); err != nil {
			fail("c11:undecodable", "datadog chunk %s is not a JSON array of string maps (%v): body %s", ch.ID, err, c11Hex(d.payload))
			return "ok:" + strings.Join(items, ";"), fails
		}
		for j, m := range arr {
			if at+j >= len(written) {
				fail("c11:payload", "chunk %s holds more records than were written", ch.ID)
				break
			}
			i := written[at+j]
			msg := ""
			if i < len(msgs) {
				msg = string(msgs[i])
			}
			if want := strconv.FormatInt(c11SerTimestamp(i).UnixMilli(), 10); m["timestamp"] != want {
				fail("c11:payload", "chunk %s item %d is not record %d (timestamp %q, want %q): order or content broken", ch.ID, j, at+j, m["timestamp"], want)
				break
			}
			if got, has := m["message"]; utf8.ValidString(msg) && (got != msg || has != (msg != "")) {
				fail("c11:payload", "chunk %s item %d: message decodes to %q (hex %s), written %q (hex %s)", ch.ID, j, got, hex.EncodeToString([]byte(got)), msg, hex.EncodeToString([]byte(msg)))
				break
			}
			if m["app"] != "app" || m["vhost"] != "h1" || m["comp"] != "K" {
				fail("c11:payload", "chunk %s item %d: other fields damaged: %v", ch.ID, j, m)
				break
			}
		}
		at += len(arr)
	}
	if at != len(written) {
		fail("c11:lost", "%d records written, %d found in the decoded JSON arrays", len(written), at)
	}
	return "ok:" + strings.Join(items, ";"), fails
}

func c11GenSerializedValues(g *Gen) {
	r := g.R
	emit := func(class string, maxr int, msgs []string, flushAt int) {
		s := [][]byte{[]byte("t")}
		z := []int64{3, int64(maxr), 0, 0}
		for i, m := range msgs {
			if i == flushAt {
				z = append(z, 0)
			}
			s = append(s, []byte(m))
			z = append(z, 1)
		}
		g.Count(class)
		g.Case(9, s, z)
	}
	special := []string{}
	for b := 0; b < 0x20; b++ {
		special = append(special, string([]byte{byte(b)}))
	}
	special = append(special, "\x7f", "\"", "\\", "<", ">", "&", "\u2028", "\u2029", "x\u2028y", "ä", "\U0001F600", "\xff", "\xc3", "\xed\xa0\x80", "\x1b[31m", "\\u0000", "/")
	// (a) every special value at the start / middle / end / alone, between two ordinary records of the same chunk
	for i, sp := range special {
		forms := []string{sp, sp + "tail", "head" + sp, "he" + sp + "ad"}
		if g.Thorough() {
			for _, f := range forms {
				emit("servalues:each", 0, []string{"first", f, "last"}, -1)
			}
		} else {
			emit("servalues:each", 0, []string{"first", forms[i%4], forms[(i+1)%4], "last"}, -1)
		}
	}
	// (b) random mixtures over several chunks (record limit, flushes)
	for i := 0; i < g.Pick(40, 1500); i++ {
		n := r.PickInt([]int{1, 2, 3, 5, 8})
		var msgs []string
		for j := 0; j < n; j++ {
			var sb strings.Builder
			for k := r.PickInt([]int{0, 1, 2, 5, 12}); k > 0; k-- {
				if r.Chance(1, 3) {
					sb.WriteString(special[r.Intn(len(special))])
				} else {
					sb.WriteByte(byte('a' + r.Intn(26)))
				}
			}
			msgs = append(msgs, sb.String())
		}
		flushAt := -1
		if r.Chance(1, 3) {
			flushAt = r.Intn(n)
		}
		emit("servalues:mixed", r.PickInt([]int{0, 0, 1, 2, 3}), msgs, flushAt)
	}
}
