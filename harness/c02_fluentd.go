package main

// C02, flavour 2: the REAL fluentdforward connection (openForwardConnection through the verif export) wrapped in an
// event-logging decorator, against a scripted fake Fluentd on the loopback interface.  The client worker is built
// exactly as fluentdforward.NewClientWorker builds it (baseoutput.NewClientWorker + that opener); what is added is
// the log.  This exercises the wrapper's ACK parsing (msgpack map with / without the "ack" field, garbage bytes),
// socket deadlines and Close semantics, which the scripted connection of the other flavours only imitates.

import (
	"encoding/binary"
	"fmt"
	"io"
	"net"
	"net/http"
	"strconv"
	"sync"
	"time"

	"github.com/relex/gotils/channels"
	"github.com/relex/gotils/logger"
	"github.com/relex/gotils/promexporter/promreg"
	"github.com/relex/slog-agent/base"
	"github.com/relex/slog-agent/output/baseoutput"
	"github.com/relex/slog-agent/output/datadog"
	"github.com/relex/slog-agent/output/fluentdforward"
)

// c02WrapperOpener returns the connection opener that fluentdforward.NewClientWorker / datadog.NewClientWorker
// hand to baseoutput.NewClientWorker (taken from a worker that is never started), and the max session duration.
func c02WrapperOpener(flavor int, addr string, httpTimeout ...time.Duration) (baseoutput.EstablishConnectionFunc, time.Duration) {
	hto := c02SendTimeout
	if len(httpTimeout) > 0 {
		hto = httpTimeout[0]
	}
	closed := channels.NewSignalAwaitable()
	args := base.ChunkConsumerArgs{InputChannel: make(chan base.LogChunk), InputClosed: closed,
		OnChunkConsumed: func(base.LogChunk) {}, OnChunkLeftover: func(base.LogChunk) {}, OnFinished: func() {}}
	c02SerialMu.Lock()
	c02Serial++
	mf := promreg.NewMetricFactory(fmt.Sprintf("c02d%d_", c02Serial), nil, nil)
	c02SerialMu.Unlock()
	var worker base.ChunkConsumer
	if flavor == 3 {
		worker = datadog.NewClientWorker(logger.WithField("c02", "datadog"), args, mf,
			datadog.UpstreamConfig{Address: "http://" + addr + "/v2/logs", HTTPTimeout: hto})
	} else {
		worker = fluentdforward.NewClientWorker(logger.WithField("c02", "fluentd"), args,
			fluentdforward.UpstreamConfig{Address: addr, MaxDuration: time.Hour}, mf)
	}
	closed.Signal() // the abort-on-stop goroutine of the unused worker ends
	op := baseoutput.VerifOpener(worker)
	if op == nil {
		panic("c02: the output wrapper is not a baseoutput.ClientWorker any more")
	}
	return op, time.Duration(baseoutput.VerifMaxDuration(worker))
}

// additional answers of the fake server to a received chunk
const (
	cAckGarbage = 8 // a byte that is no msgpack value
	cAckNoField = 9 // an empty map: no "ack" field at all
)

// c02ForwardChunk builds a Forward message the fake server can frame:
// [ "t", bin32(payload), {"size":1, "chunk":"<id>"} ]
func c02ForwardChunk(id string, payload int) []byte {
	b := []byte{0x93, 0xa1, 't', 0xc6, 0, 0, 0, 0}
	binary.BigEndian.PutUint32(b[4:8], uint32(payload))
	b = append(b, make([]byte, payload)...)
	b = append(b, 0x82, 0xa4, 's', 'i', 'z', 'e', 0x01, 0xa5, 'c', 'h', 'u', 'n', 'k', 0xa0|byte(len(id)))
	b = append(b, id...)
	return b
}

var c02PingBytes []byte
var c02PingOnce sync.Once

// c02LearnPing captures the bytes of the wrapper's ping message (an unexported value) from a real connection.
func c02LearnPing() {
	c02PingOnce.Do(func() {
		ln, err := net.Listen("tcp", "127.0.0.1:0")
		if err != nil {
			panic(err)
		}
		defer ln.Close()
		got := make(chan []byte, 1)
		go func() {
			c, err := ln.Accept()
			if err != nil {
				got <- nil
				return
			}
			defer c.Close()
			var all []byte
			buf := make([]byte, 4096)
			for {
				_ = c.SetReadDeadline(time.Now().Add(100 * time.Millisecond))
				n, err := c.Read(buf)
				all = append(all, buf[:n]...)
				if err != nil {
					break
				}
			}
			got <- all
		}()
		op, _ := c02WrapperOpener(2, ln.Addr().String())
		conn, err := op()
		if err != nil {
			panic(err)
		}
		if err := conn.SendPing(time.Now().Add(time.Second)); err != nil {
			panic(err)
		}
		c02PingBytes = <-got
		conn.Close()
		if len(c02PingBytes) == 0 || c02PingBytes[0] != 0x93 {
			panic(fmt.Sprintf("unexpected ping message % x", c02PingBytes))
		}
	})
}

// c02Fluentd is the fake server of one scenario.
type c02Fluentd struct {
	w      *c02World
	ln     net.Listener
	live   baseoutput.EstablishConnectionFunc // the wrapper's opener for the fake server
	dead   baseoutput.EstablishConnectionFunc // ... for an address on which nothing listens
	srv    *http.Server                       // flavour 3
	mu     sync.Mutex
	conns  []net.Conn
	nChunk int
}

func c02NewFluentd(w *c02World) *c02Fluentd {
	c02LearnPing()
	ln, err := net.Listen("tcp", "127.0.0.1:0")
	if err != nil {
		panic(err)
	}
	d, err := net.Listen("tcp", "127.0.0.1:0")
	if err != nil {
		panic(err)
	}
	dead := d.Addr().String()
	d.Close()
	f := &c02Fluentd{w: w, ln: ln}
	if w.scn.Flavor == 3 && len(w.scn.Http) > 0 {
		// family I: no scripted hang; a timeout far beyond any scheduling delay, so that the i-th POST belongs to the i-th call
		f.live, _ = c02WrapperOpener(3, ln.Addr().String(), c02DDTimeout)
		f.dead, _ = c02WrapperOpener(3, dead, c02DDTimeout)
	} else {
		f.live, _ = c02WrapperOpener(w.scn.Flavor, ln.Addr().String())
		f.dead, _ = c02WrapperOpener(w.scn.Flavor, dead)
	}
	if w.scn.Flavor == 3 {
		f.srv = &http.Server{Handler: http.HandlerFunc(f.serveHTTP)}
		go func() { _ = f.srv.Serve(ln) }()
	} else {
		go f.acceptLoop()
	}
	return f
}

// serveHTTP is the fake Datadog intake: the body of a request is the chunk id.
func (f *c02Fluentd) serveHTTP(rw http.ResponseWriter, rq *http.Request) {
	if len(f.w.scn.Http) > 0 {
		f.serveStatus(rw, rq)
		return
	}
	_, _ = io.ReadAll(rq.Body)
	f.mu.Lock()
	out := c02At(f.w.scn.Send, f.nChunk)
	f.nChunk++
	f.mu.Unlock()
	switch out {
	case cSendErr:
		rw.WriteHeader(http.StatusServiceUnavailable)
		_, _ = rw.Write([]byte("scripted refusal " + strconv.Itoa(f.nChunk)))
	case cSendBlock:
		select {
		case <-f.w.endCh:
		case <-rq.Context().Done():
		}
	default:
		rw.WriteHeader(http.StatusAccepted)
	}
}

func (f *c02Fluentd) shutdown() {
	if f.srv != nil {
		_ = f.srv.Close()
	}
	f.ln.Close()
	f.mu.Lock()
	for _, c := range f.conns {
		c.Close()
	}
	f.mu.Unlock()
}

func (f *c02Fluentd) acceptLoop() {
	for {
		c, err := f.ln.Accept()
		if err != nil {
			return
		}
		if tc, ok := c.(*net.TCPConn); ok && f.w.scn.Big > 0 {
			_ = tc.SetReadBuffer(32 * 1024) // a small window, so that a stalled server blocks the client's write soon
		}
		f.mu.Lock()
		f.conns = append(f.conns, c)
		f.mu.Unlock()
		go f.serve(c)
	}
}

func c02AckMsg(id string) []byte {
	return append([]byte{0x81, 0xa3, 'a', 'c', 'k', 0xa0 | byte(len(id))}, id...)
}

// serve reads pings and chunks in the format of c02ForwardChunk and answers by the script.
func (f *c02Fluentd) serve(c net.Conn) {
	defer c.Close()
	hdr := make([]byte, 8)
	for {
		if _, err := io.ReadFull(c, hdr[:3]); err != nil {
			return
		}
		if hdr[0] == 0x93 && hdr[1] != 0xa1 { // not our chunk: the ping message
			rest := make([]byte, len(c02PingBytes)-3)
			if _, err := io.ReadFull(c, rest); err != nil {
				return
			}
			continue
		}
		if _, err := io.ReadFull(c, hdr[3:8]); err != nil {
			return
		}
		n := int(binary.BigEndian.Uint32(hdr[4:8]))
		if _, err := io.CopyN(io.Discard, c, int64(n)); err != nil {
			return
		}
		tail := make([]byte, 14)
		if _, err := io.ReadFull(c, tail); err != nil {
			return
		}
		idb := make([]byte, int(tail[13]&0x1f))
		if _, err := io.ReadFull(c, idb); err != nil {
			return
		}
		id := string(idb)
		f.mu.Lock()
		out := c02At(f.w.scn.Ack, f.nChunk)
		f.nChunk++
		stall := c02At(f.w.scn.Send, f.nChunk) == cSendBlock // stop reading before the next chunk
		f.mu.Unlock()
		switch out {
		case cAckEmpty:
			_, _ = c.Write(c02AckMsg(""))
		case cAckErr:
			return // closes the connection
		case cAckBlock:
		case cAckUnknown:
			_, _ = c.Write(append(c02AckMsg(c02ChunkID(c02UnknownID)), c02AckMsg(id)...))
		case cAckGarbled:
			_, _ = c.Write(c02AckMsg(c02ChunkID(c02UnknownID)))
		case cAckDup:
			_, _ = c.Write(append(c02AckMsg(id), c02AckMsg(id)...))
		case cAckGarbage:
			_, _ = c.Write([]byte{0xc1})
		case cAckNoField:
			_, _ = c.Write([]byte{0x80})
		default:
			_, _ = c.Write(c02AckMsg(id))
		}
		if stall {
			<-f.w.endCh
			return
		}
	}
}

// c02RealConn decorates the real connection with the event log.
type c02RealConn struct {
	w     *c02World
	k     int
	inner baseoutput.ClosableClientConnection
}

func (c *c02RealConn) Logger() logger.Logger { return c.inner.Logger() }

func (c *c02RealConn) SendChunk(chunk base.LogChunk, deadline time.Time) error {
	r0 := c.w.ddBefore()
	err := c.inner.SendChunk(chunk, deadline)
	c.w.mu.Lock()
	defer c.w.mu.Unlock()
	ok := int64(1)
	if err != nil {
		ok = 0
	}
	c.w.ddAfter(r0, chunk, err)
	c.w.log(c02SendRet, int64(c.k), c02IDNum(chunk.ID), ok)
	return err
}

func (c *c02RealConn) SendPing(deadline time.Time) error {
	err := c.inner.SendPing(deadline)
	c.w.mu.Lock()
	defer c.w.mu.Unlock()
	ok := int64(1)
	if err != nil {
		ok = 0
	}
	c.w.log(c02PingRet, int64(c.k), ok, 0)
	return err
}

func (c *c02RealConn) ReadChunkAck(deadline time.Time) (string, error) {
	id, err := c.inner.ReadChunkAck(deadline)
	c.w.mu.Lock()
	defer c.w.mu.Unlock()
	switch {
	case err != nil:
		c.w.log(c02AckRet, int64(c.k), 2, 0)
	case id == "":
		c.w.log(c02AckRet, int64(c.k), 1, 0)
	default:
		n := c02IDNum(id)
		if n < 0 {
			n = c02UnknownID
		}
		c.w.log(c02AckRet, int64(c.k), 0, n)
	}
	return id, err
}

func (c *c02RealConn) Close() {
	c.w.mu.Lock()
	c.w.log(c02Close, int64(c.k), 0, 0)
	c.w.mu.Unlock()
	c.inner.Close()
}

// openReal is the opener of flavour 2.
func (w *c02World) openReal() (baseoutput.ClosableClientConnection, error) {
	w.mu.Lock()
	w.nConn++
	k := w.nConn
	out := c02At(w.scn.Conn, k-1)
	w.log(c02ConnStart, int64(k), 0, 0)
	w.mu.Unlock()
	if out == cConnBlockOK || out == cConnBlockErr {
		select {
		case <-w.stopCh:
		case <-w.endCh:
		}
	}
	op := w.fluentd.live
	if (out == cConnErr || out == cConnBlockErr) && w.scn.Flavor == 2 {
		op = w.fluentd.dead
	}
	conn, err := op()
	w.mu.Lock()
	defer w.mu.Unlock()
	if err != nil {
		w.log(c02ConnRet, int64(k), 0, 0)
		return nil, err
	}
	w.log(c02ConnRet, int64(k), 1, 0)
	return &c02RealConn{w: w, k: k, inner: conn}, nil
}
