package main

// The per-case watchdog of the generator and of replay (Gen.runWithWatchdog).
//
// A case that does not return is a finding (deadlock, wedge, busy loop): it is recorded with output "hang" and as the
// oracle failure "<id>:hang".  "Does not return" must not be confused with "is slow on this machine": some cases are
// expensive for the implementation by construction (C06 kind 5 starts 512 real pipelines, each of which allocates and
// clears megabytes of encoder buffers), and on a machine whose memory is slow to touch (a freshly restored VM, memory
// pressure) such a case was seen to need more than the 120 s limit although nothing was stuck.  So the limit is
// applied to cases that make no progress: when it expires, the CPU time this process and all its descendants use
// during the next few seconds is measured.  Less than a quarter of one core: the case is waiting for something that
// does not come - hang, a few seconds later than before.  Otherwise it is computing and gets another window, up to four
// times the limit in all; a case that is still running then is a hang as well (busy loop), only reported later.

import (
	"fmt"
	"os"
	"os/exec"
	"path/filepath"
	"runtime"
	"strconv"
	"strings"
	"sync"
	"syscall"
	"time"
)

const watchdogMaxWindows = 4

// treeCPU returns the CPU time (user + system, including waited-for children) used so far by this process and all
// its live descendants, from /proc.  Zero if /proc cannot be read (then no case gets a further window).
func treeCPU() time.Duration {
	ents, err := os.ReadDir("/proc")
	if err != nil {
		return 0
	}
	type pstat struct {
		ppid  int
		ticks int64
	}
	procs := map[int]pstat{}
	for _, e := range ents {
		pid, err := strconv.Atoi(e.Name())
		if err != nil {
			continue
		}
		data, err := os.ReadFile(filepath.Join("/proc", e.Name(), "stat"))
		if err != nil {
			continue
		}
		// pid (comm) state ppid pgrp session tty tpgid flags minflt cminflt majflt cmajflt utime stime cutime cstime ...
		s := string(data)
		i := strings.LastIndexByte(s, ')')
		if i < 0 {
			continue
		}
		f := strings.Fields(s[i+1:])
		if len(f) < 15 {
			continue
		}
		ppid, _ := strconv.Atoi(f[1])
		var ticks int64
		for _, k := range []int{11, 12, 13, 14} {
			v, _ := strconv.ParseInt(f[k], 10, 64)
			ticks += v
		}
		procs[pid] = pstat{ppid, ticks}
	}
	self := os.Getpid()
	var total int64
	for pid, st := range procs {
		for p, hops := pid, 0; p > 1 && hops < 64; hops++ {
			if p == self {
				total += st.ticks
				break
			}
			q, ok := procs[p]
			if !ok {
				break
			}
			p = q.ppid
		}
	}
	return time.Duration(total) * (time.Second / 100) // USER_HZ is 100 on Linux
}

// child processes that run (part of) a case: killed when the watchdog gives the case up, so that none outlives the run
var liveChildren sync.Map // *exec.Cmd -> struct{}

// runChild starts cmd, waits for it and returns its error; the watchdog may end it (SIGQUIT: a Go child then writes
// its goroutine stacks to its stderr; SIGKILL two seconds later).
func runChild(cmd *exec.Cmd) error {
	if err := cmd.Start(); err != nil {
		return err
	}
	liveChildren.Store(cmd, struct{}{})
	defer liveChildren.Delete(cmd)
	return cmd.Wait()
}

func killChildren() {
	n := 0
	liveChildren.Range(func(k, _ interface{}) bool {
		k.(*exec.Cmd).Process.Signal(syscall.SIGQUIT)
		n++
		return true
	})
	if n == 0 {
		return
	}
	time.Sleep(2 * time.Second)
	liveChildren.Range(func(k, _ interface{}) bool {
		k.(*exec.Cmd).Process.Kill()
		return true
	})
}

func (g *Gen) runWithWatchdog(c *Case) (string, []Fail) {
	type res struct {
		out   string
		fails []Fail
	}
	ch := make(chan res, 1)
	go func() {
		o, f := g.prop.Run(c)
		ch <- res{o, f}
	}()
	to := g.prop.CaseTimeout
	if to == 0 {
		to = 120 * time.Second
	}
	if v, err := time.ParseDuration(os.Getenv("VERIF_CASE_TIMEOUT")); err == nil && v > 0 {
		to = v // experiments only (reproducing a wedge faster); the checks do not set it
	}
	start := time.Now()
	probe := to / 8
	if probe > 10*time.Second {
		probe = 10 * time.Second
	}
	var used time.Duration
	for window := 1; ; window++ {
		select {
		case r := <-ch:
			return r.out, r.fails
		case <-time.After(to):
		}
		// the limit has expired: is the case computing right now? (measured over a short interval at this point only -
		// reading /proc for every case would cost more than most cases do)
		before := treeCPU()
		select {
		case r := <-ch:
			return r.out, r.fails
		case <-time.After(probe):
		}
		used = treeCPU() - before
		if used >= probe/4 && window < watchdogMaxWindows {
			g.dist["_slow_case_windows"]++ // computing, not waiting: another window (reported in stats.json)
			continue
		}
		g.aborted = true
		g.dist["_hang"]++
		// every goroutine's stack at the moment the watchdog fires, beside cases.txt: what the case is waiting for
		if g.outdir != "" {
			buf := make([]byte, 64<<20)
			buf = buf[:runtime.Stack(buf, true)]
			os.WriteFile(filepath.Join(g.outdir, "hang_stacks.txt"), append([]byte("case "+c.Line()+"\n\n"), buf...), 0o644)
		}
		elapsed := time.Since(start).Round(time.Second)
		killChildren()
		return "hang", []Fail{{Sig: strings.ToLower(g.prop.ID) + ":hang",
			Desc: fmt.Sprintf("the implementation did not finish this case within %s (deadlock or wedge; CPU time used in the last %s: %s); generation stopped",
				elapsed, probe, used.Round(10*time.Millisecond))}}
	}
}
