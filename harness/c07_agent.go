package main

// C07 kind 3: the REAL agent in a child process, fed over TCP.
//
//	child:  harness C07 child agent <config.yml> <maxMsg> <maxRec>
//	        run.NewLoaderFromConfigFile -> StartOrchestrator -> LaunchInputs (real TCP listener, real receiver,
//	        real orchestrator and pipelines; the forwarders are replaced by an override consumer, as test/agent.go
//	        does).  Prints "ADDR <host:port>", then "DEL <output> <marker>" for every delivered event that carries a
//	        sentinel marker, answers "PING" with "PONG" and "GATHER" with "GATHER ok|err ...", stops on "STOP".
//	parent: a TCP client that plays the script of the case.
//
// Case: S = byte blobs as a table (head, unit, tail), Z = maxMsg, maxRec, ntab, repeat counts, then the script
//
//	1 connect (a new connection becomes the current one)   2 i   send blob i on the current connection
//	3 close the current connection (FIN)                    4     abort it (RST: SO_LINGER 0)
//	5 ms  sleep                                             6     wait until every sentinel sent so far is delivered
//
// After the script the client ALWAYS opens a new connection, sends a last sentinel, waits for every sentinel, pings
// the process and asks it to gather its metrics.  Output "child:ok" - anything else is a failure of the property:
// the process must be alive, the listener must accept, every sentinel must arrive exactly once per output.
// This is the part no theorem exhibits: that the real process survives.

import (
	"bufio"
	"bytes"
	"fmt"
	"net"
	"os"
	"os/exec"
	"path/filepath"
	"strconv"
	"strings"
	"sync"
	"time"

	"github.com/relex/gotils/channels"
	"github.com/relex/gotils/logger"
	"github.com/relex/slog-agent/base"
	"github.com/relex/slog-agent/defs"
	"github.com/relex/slog-agent/run"
)

// ---------------------------------------------------------------- child

type c07AgentConsumer struct {
	output  string
	args    base.ChunkConsumerArgs
	stopped *channels.SignalAwaitable
	out     *c07LineOut
}

type c07LineOut struct {
	mu sync.Mutex
	w  *bufio.Writer
}

func (o *c07LineOut) printf(format string, a ...interface{}) {
	o.mu.Lock()
	fmt.Fprintf(o.w, format, a...)
	o.w.Flush()
	o.mu.Unlock()
}

func (w *c07AgentConsumer) Start()                      { go w.run() }
func (w *c07AgentConsumer) Stopped() channels.Awaitable { return w.stopped }
func (w *c07AgentConsumer) run() {
	defer w.args.OnFinished()
	defer w.stopped.Signal()
	for {
		select {
		case chunk, ok := <-w.args.InputChannel:
			if !ok {
				return
			}
			env := &c07SampleEnv{}
			env.record(w.output, chunk)
			for i, b := range env.broken {
				if i < 3 {
					w.out.printf("BROKEN %s\n", strings.ReplaceAll(b, "\n", " "))
				}
			}
			for _, d := range env.delivered {
				w.out.printf("DEL %s %s\n", d.output, d.marker)
			}
			w.args.OnChunkConsumed(chunk)
		case <-w.args.InputClosed.Channel():
			return
		}
	}
}

func c07ChildAgent(args []string) {
	if len(args) < 3 {
		os.Exit(2)
	}
	logger.SetLogLevel(logger.FatalLevel)
	maxMsg, _ := strconv.Atoi(args[1])
	maxRec, _ := strconv.Atoi(args[2])
	defs.InputLogMaxMessageBytes, defs.InputLogMaxRecordBytes, defs.ListenerLineBufferSize = maxMsg, maxRec, 4*maxRec
	defs.InputFlushInterval = 40 * time.Millisecond
	defs.IntermediateFlushInterval = 40 * time.Millisecond
	out := &c07LineOut{w: bufio.NewWriter(os.Stdout)}
	loader, err := run.NewLoaderFromConfigFile(args[0], "c07a_")
	if err != nil {
		out.printf("CFGERR %s\n", strings.ReplaceAll(err.Error(), "\n", " "))
		os.Exit(3)
	}
	loader.PipelineArgs.SendAllAtEnd = true
	loader.PipelineArgs.NewConsumerOverride = func(parentLogger logger.Logger, name string, decoder base.ChunkDecoder, cargs base.ChunkConsumerArgs) base.ChunkConsumer {
		return &c07AgentConsumer{output: name, args: cargs, stopped: channels.NewSignalAwaitable(), out: out}
	}
	orchestrator := loader.StartOrchestrator(logger.Root())
	addrs, shutdownInputs := loader.LaunchInputs(orchestrator)
	out.printf("ADDR %s\n", addrs[0])
	in := bufio.NewReader(os.Stdin)
	for {
		line, err := in.ReadString('\n')
		switch strings.TrimSpace(line) {
		case "PING":
			out.printf("PONG\n")
		case "GATHER":
			if _, gerr := loader.GetMetricGatherer().Gather(); gerr != nil {
				out.printf("GATHER err %s\n", strings.ReplaceAll(gerr.Error(), "\n", " "))
			} else {
				out.printf("GATHER ok\n")
			}
		case "STOP":
			shutdownInputs()
			time.Sleep(100 * time.Millisecond)
			orchestrator.Shutdown()
			out.printf("BYE\n")
			os.Exit(0)
		}
		if err != nil {
			os.Exit(0)
		}
	}
}

// ---------------------------------------------------------------- parent

type c07Agent struct {
	cmd    *exec.Cmd
	stdin  *bufio.Writer
	stderr *c07Tail
	mu     sync.Mutex
	del    map[string]int // output/marker -> deliveries
	broken []string
	addr   string
	lines  chan string
	dead   chan struct{}
}

func c07StartAgent(cfgPath string, maxMsg, maxRec int) (*c07Agent, error) {
	exe, err := os.Executable()
	if err != nil {
		return nil, err
	}
	a := &c07Agent{del: map[string]int{}, lines: make(chan string, 1024), dead: make(chan struct{})}
	a.cmd = exec.Command(exe, "C07", "child", "agent", cfgPath, strconv.Itoa(maxMsg), strconv.Itoa(maxRec))
	a.stderr = &c07Tail{}
	a.cmd.Stderr = a.stderr
	in, _ := a.cmd.StdinPipe()
	outp, _ := a.cmd.StdoutPipe()
	if err := a.cmd.Start(); err != nil {
		return nil, err
	}
	a.stdin = bufio.NewWriter(in)
	go func() {
		sc := bufio.NewScanner(outp)
		sc.Buffer(make([]byte, 1<<16), 1<<22)
		for sc.Scan() {
			l := sc.Text()
			switch {
			case strings.HasPrefix(l, "DEL "):
				f := strings.Fields(l)
				if len(f) == 3 {
					a.mu.Lock()
					a.del[f[1]+"/"+f[2]]++
					a.mu.Unlock()
				}
			case strings.HasPrefix(l, "BROKEN "):
				a.mu.Lock()
				a.broken = append(a.broken, l[7:])
				a.mu.Unlock()
			default:
				a.lines <- l
			}
		}
		a.cmd.Wait()
		close(a.dead)
	}()
	select {
	case l := <-a.lines:
		if !strings.HasPrefix(l, "ADDR ") {
			a.kill()
			return nil, fmt.Errorf("agent child: %s", l)
		}
		a.addr = strings.TrimPrefix(l, "ADDR ")
	case <-a.dead:
		return nil, fmt.Errorf("agent child died at start: %s", c07PanicLine(a.stderr.String()))
	case <-time.After(30 * time.Second):
		a.kill()
		return nil, fmt.Errorf("agent child did not start")
	}
	return a, nil
}

func (a *c07Agent) kill() {
	if a.cmd != nil && a.cmd.Process != nil {
		a.cmd.Process.Kill()
	}
}

func (a *c07Agent) alive() bool {
	select {
	case <-a.dead:
		return false
	default:
		return true
	}
}

func (a *c07Agent) ask(cmd string, prefix string, timeout time.Duration) (string, bool) {
	fmt.Fprintf(a.stdin, "%s\n", cmd)
	a.stdin.Flush()
	deadline := time.After(timeout)
	for {
		select {
		case l := <-a.lines:
			if strings.HasPrefix(l, prefix) {
				return l, true
			}
		case <-a.dead:
			return "", false
		case <-deadline:
			return "", false
		}
	}
}

func (a *c07Agent) delivered(output, marker string) int {
	a.mu.Lock()
	defer a.mu.Unlock()
	return a.del[output+"/"+marker]
}

var c07AgentOutputs = []string{"customFluentd", "datadogAPI"}

// waitFor waits until every marker has reached every output
func (a *c07Agent) waitFor(markers []string, timeout time.Duration) (missing string) {
	deadline := time.Now().Add(timeout)
	for {
		missing = ""
		for _, m := range markers {
			for _, o := range c07AgentOutputs {
				if a.delivered(o, m) == 0 {
					missing = o + "/" + m
				}
			}
		}
		if missing == "" || !a.alive() || time.Now().After(deadline) {
			return
		}
		time.Sleep(10 * time.Millisecond)
	}
}

// c07SentinelsIn: the markers of the complete, well-formed lines of a blob
func c07SentinelsIn(blob []byte) []string {
	var ms []string
	for _, l := range bytes.Split(blob, []byte("\n")) {
		if wf, sure := c07WellFormed(l); wf && sure {
			if m := c07Marker(string(l)); m != "" {
				ms = append(ms, m)
			}
		}
	}
	return ms
}

var c07AgentSeq int

func c07RunAgent(c *Case) (out string, fails []Fail) {
	if len(c.Z) < 3 {
		return "badcase", nil
	}
	maxMsg, maxRec := int(c.Z[0]), int(c.Z[1])
	// the blobs are transported as a table of (head, unit, tail) + repeat count, like the records of kind 0
	ntab := int(c.Z[2])
	if ntab < 0 || len(c.Z) < 3+ntab || len(c.S) < 3*ntab {
		return "badcase", nil
	}
	blobs := make([][]byte, ntab)
	for i := 0; i < ntab; i++ {
		reps := int(c.Z[3+i])
		if reps < 0 || reps*len(c.S[3*i+1]) > 1<<26 {
			return "badcase", nil
		}
		blobs[i] = append(append(append([]byte(nil), c.S[3*i]...), bytes.Repeat(c.S[3*i+1], reps)...), c.S[3*i+2]...)
	}
	script := c.Z[3+ntab:]
	dir, err := os.MkdirTemp("", "c07a")
	if err != nil {
		panic(err)
	}
	defer os.RemoveAll(dir)
	src, err := os.ReadFile(filepath.Join(c07RepoDir(), "testdata", "config_sample.yml"))
	if err != nil {
		return "cfgerr", []Fail{{"c07:sample-config", err.Error()}}
	}
	text := strings.ReplaceAll(string(src), "/tmp/slog-buffer-", filepath.Join(dir, "buf-"))
	text = strings.ReplaceAll(text, "address: localhost:5140", "address: localhost:0")
	cfgPath := filepath.Join(dir, "config.yml")
	os.WriteFile(cfgPath, []byte(text), 0o644)
	agent, err := c07StartAgent(cfgPath, maxMsg, maxRec)
	if err != nil {
		return "child:nostart", []Fail{{"c07:agent-start", err.Error()}}
	}
	defer agent.kill()
	what := func() string {
		var sb strings.Builder
		fmt.Fprintf(&sb, "script %v; blobs:", script)
		for i, b := range blobs {
			fmt.Fprintf(&sb, " [%d] %s", i, c07Short(b))
			if sb.Len() > 1500 {
				break
			}
		}
		return sb.String()
	}
	died := func(phase string) (string, []Fail) {
		msg := c07PanicLine(agent.stderr.String())
		return "child:dead", []Fail{{c07PanicSig(msg), fmt.Sprintf("the agent process died (%s): %s; %s", phase, strings.ReplaceAll(msg, "\t", " "), what())}}
	}
	var conn *net.TCPConn
	var sent []string
	dial := func() (*net.TCPConn, error) {
		cn, err := net.DialTimeout("tcp", agent.addr, 5*time.Second)
		if err != nil {
			return nil, err
		}
		return cn.(*net.TCPConn), nil
	}
	for i := 0; i < len(script); i++ {
		if !agent.alive() {
			return died("during the script")
		}
		switch script[i] {
		case 1:
			if conn != nil {
				conn.Close()
			}
			var derr error
			if conn, derr = dial(); derr != nil {
				if !agent.alive() {
					return died("at connect")
				}
				return "child:refused", []Fail{{"c07:listener-dead", "the listener does not accept a connection: " + derr.Error() + "; " + what()}}
			}
		case 2:
			i++
			if i < len(script) && conn != nil && script[i] >= 0 && int(script[i]) < len(blobs) {
				blob := blobs[script[i]]
				conn.SetWriteDeadline(time.Now().Add(20 * time.Second))
				if _, werr := conn.Write(blob); werr == nil {
					sent = append(sent, c07SentinelsIn(blob)...)
				}
			}
		case 3:
			if conn != nil {
				conn.Close()
				conn = nil
			}
		case 4:
			if conn != nil {
				conn.SetLinger(0)
				conn.Close()
				conn = nil
			}
		case 5:
			i++
			if i < len(script) {
				time.Sleep(time.Duration(script[i]) * time.Millisecond)
			}
		case 6:
			if miss := agent.waitFor(sent, 20*time.Second); miss != "" {
				if !agent.alive() {
					return died("while delivering")
				}
				return "child:lost", []Fail{{"c07:sentinel-lost", fmt.Sprintf("sentinel %s is not delivered; %s", miss, what())}}
			}
		}
	}
	if conn != nil {
		conn.Close()
	}
	if !agent.alive() {
		return died("after the script")
	}
	// a NEW connection must be accepted and served
	c07AgentSeq++
	last := fmt.Sprintf("SENTINEL-z%d", c07AgentSeq)
	nc, derr := dial()
	if derr != nil {
		if !agent.alive() {
			return died("at the new connection")
		}
		return "child:refused", []Fail{{"c07:listener-dead", "after the bad input the listener does not accept a NEW connection: " + derr.Error() + "; " + what()}}
	}
	nc.Write([]byte("<166>1 2022-08-15T12:14:59.855+02:00 endhost appServ/bar.com 123 main.log - " + last + " still alive\n"))
	nc.Close()
	sent = append(sent, last)
	if miss := agent.waitFor(sent, 25*time.Second); miss != "" {
		if !agent.alive() {
			return died("while delivering")
		}
		return "child:lost", []Fail{{"c07:sentinel-lost", fmt.Sprintf("sentinel %s is not delivered although the process is alive; %s", miss, what())}}
	}
	for _, m := range sent {
		for _, o := range c07AgentOutputs {
			if n := agent.delivered(o, m); n != 1 {
				fails = append(fails, Fail{"c07:sentinel-duplicated", fmt.Sprintf("sentinel %s reaches output %s %d times; %s", m, o, n, what())})
			}
		}
	}
	if _, ok := agent.ask("PING", "PONG", 10*time.Second); !ok {
		return died("at the ping")
	}
	if g, ok := agent.ask("GATHER", "GATHER", 20*time.Second); !ok {
		return died("at gather")
	} else if !strings.HasPrefix(g, "GATHER ok") {
		fails = append(fails, Fail{"c07:metrics-wedged", "after this input every metric collection of the agent fails: " + g + "; " + what()})
	}
	agent.mu.Lock()
	if len(agent.broken) > 0 {
		fails = append(fails, Fail{"c07:chunk-undecodable", fmt.Sprintf("%s (%d such events); %s", agent.broken[0], len(agent.broken), what())})
	}
	agent.mu.Unlock()
	if _, ok := agent.ask("STOP", "BYE", 60*time.Second); !ok {
		fails = append(fails, Fail{"c07:agent-stop", "the agent does not shut down after the input; " + what()})
	}
	if len(fails) > 0 {
		return "child:bad", fails
	}
	return "child:ok", nil
}
