package main

// C12, kind 3: generator of record streams and configurations.

import (
	"fmt"
	"strings"
)

var c12LevelNames = []string{"off", "fatal", "crit", "error", "warn", "notice", "info", "debug"}

type c12Builder struct {
	r  *Rng
	pc *c12Pipe
}

func (b *c12Builder) lit(s string) int {
	b.pc.Lits = append(b.pc.Lits, []byte(s))
	return len(b.pc.Lits) - 1
}

var c12Hosts = []string{"h1", "web-01", "db.example.com", "-", "héllo"}
var c12Apps = []string{"appServ", "nginx", "cron", "-", "a"}
var c12Sources = []string{"main.log", "access.log", "-", "auth.log:12ab"}
var c12Words = []string{"GET", "POST", "user=bob", "ok", "failed", "€uro", "日本", "ünï", "x", "timeout", "id=42", "\\n", "\\t", "\\\\", "\\q", "a\\", "tab\\tsep", "bad\xff", "cut\xe2\x82"}

// literal values placed into fields by addFields / mapValue: valid UTF-8, no '$', some with multi-byte runes near typical cut points
var c12LitValues = []string{"production", "abc€defghijk", "v", "xy", "ααααααα", "static-value-0123456789", "日本語テキスト", "a b c", "LIT", "q€", "ab€", "abc€"}

func (b *c12Builder) message(maxLen int) string {
	r := b.r
	var sb strings.Builder
	n := r.Range(0, 12)
	for i := 0; i < n; i++ {
		if i > 0 {
			sb.WriteByte(' ')
		}
		sb.WriteString(r.PickStr(c12Words))
	}
	s := sb.String()
	if len(s) > maxLen {
		s = s[:maxLen]
		// keep valid UTF-8
		for len(s) > 0 && !validUTF8(s) {
			s = s[:len(s)-1]
		}
	}
	return s
}

func validUTF8(s string) bool {
	for _, c := range s {
		if c == 0xFFFD {
			return false
		}
	}
	return true
}

// padUTF8 returns valid UTF-8 filler of exactly n bytes
func (b *c12Builder) padUTF8(n int) string {
	r := b.r
	var sb strings.Builder
	for sb.Len() < n {
		left := n - sb.Len()
		switch {
		case left >= 3 && r.Chance(1, 5):
			sb.WriteString("€")
		case left >= 2 && r.Chance(1, 5):
			sb.WriteString("é")
		case left >= 4 && r.Chance(1, 12):
			sb.WriteString("😀")
		case r.Chance(1, 9):
			sb.WriteByte(' ')
		default:
			sb.WriteByte(byte('a' + r.Intn(26)))
		}
	}
	return sb.String()
}

// record builds one syslog line; total < 0 leaves the natural length, otherwise the message is padded/cut so that the line has exactly that length
func (b *c12Builder) record(total int, multiline bool) []byte {
	r := b.r
	pri := r.PickInt([]int{0, 13, 14, 34, 86, 131, 163, 165, 166, 190, 191, 7, 8})
	ts := r.PickStr([]string{"2019-08-15T15:50:46.866915+03:00", "2020-09-17T16:51:47.867Z", "-", "2021-01-01T00:00:00Z"})
	head := fmt.Sprintf("<%d>1 %s %s %s %s %s %s ", pri, ts, r.PickStr(c12Hosts), r.PickStr(c12Apps),
		r.PickStr([]string{"123", "-", "9"}), r.PickStr(c12Sources), r.PickStr([]string{"-", "[x@1]"}))
	msg := b.message(200)
	if multiline {
		msg += "\n  at line two\n\tline three"
	}
	if total >= 0 {
		want := total - len(head)
		if want < 0 {
			want = 0
		}
		if len(msg) > want {
			msg = msg[:want]
			for len(msg) > 0 && !validUTF8(msg) {
				msg = msg[:len(msg)-1]
			}
		}
		msg += b.padUTF8(want - len(msg))
	}
	line := head + msg
	for len(line) < 32 {
		line += "."
	}
	return []byte(line)
}

// recordMsg builds a line whose message is exactly n ASCII bytes; some header fields may be empty (two spaces in a row)
func (b *c12Builder) recordMsg(n int, emptyFields bool) []byte {
	r := b.r
	f := func(v string) string {
		if emptyFields && r.Chance(1, 3) {
			return ""
		}
		return v
	}
	head := fmt.Sprintf("<%d>1 %s %s %s %s %s %s ", r.PickInt([]int{13, 14, 163, 191, 0}), f("2021-01-01T00:00:00Z"), f(r.PickStr(c12Hosts)),
		f(r.PickStr(c12Apps)), f("7"), f(r.PickStr(c12Sources)), f("-"))
	msg := make([]byte, n)
	for i := range msg {
		msg[i] = byte('a' + (i*7+n)%26)
	}
	if !emptyFields && r.Bool() {
		// multi-byte runes: the cut at the message limit may fall inside one (the parser cleans the tail of a message it cut)
		msg = []byte(b.padUTF8(n))
	}
	line := head + string(msg)
	for len(line) < 32 {
		line += "_"
	}
	return []byte(line)
}

func (b *c12Builder) malformed() []byte {
	r := b.r
	switch r.Intn(9) {
	case 7:
		return []byte("< 2019-08-15T15:50:46Z host app 1 src - a first token of one byte")
	case 8:
		return []byte("<1 2019-08-15T15:50:46Z host app 1 src - first token without the version")
	case 0:
		return []byte("short")
	case 1:
		return []byte("this is not a syslog record at all, it has no PRI part....")
	case 2:
		return []byte("<999>1 2019-08-15T15:50:46Z host app 1 src - facility out of range")
	case 3:
		return []byte("<13>2 2019-08-15T15:50:46Z host app 1 src - wrong version....")
	case 4:
		return []byte("<13>1 2019-08-15T15:50:46Z host app 1 nospaceafterthisfield-and-nothing-more")
	case 5:
		return []byte("<abc>1 2019-08-15T15:50:46Z host app 1 src - pri is not a number")
	default:
		return []byte("<-5>1 2019-08-15T15:50:46Z host app 1 src - negative priority value")
	}
}

func (b *c12Builder) field(pool []int) int { return pool[b.r.Intn(len(pool))] }

// pid (5) is the metric key of the generated configurations and is never given a value by a transform: a metric key with
// invalid UTF-8 (a slice cutting a rune) panics in the metrics library (DESIGN.md section 6 #17, property C07)
var c12DstFields = []int{9, 10, 11, 12, 9, 10, 12, 3, 4, 6, 8, 2, 7}
var c12AnyFields = []int{0, 1, 2, 3, 4, 5, 6, 7, 8, 9, 10, 11, 12}
var c12SrcFields = []int{3, 4, 6, 8, 8, 9, 10, 1, 0, 2}

func (b *c12Builder) stx() c12Stx {
	r := b.r
	switch r.Intn(10) {
	case 0, 1:
		return c12Stx{Kind: 1, Dst: b.field(c12DstFields), Site: b.lit(r.PickStr(c12LitValues))}
	case 2:
		s := c12Stx{Kind: 2, Dst: b.field(c12DstFields), Src: b.field(c12SrcFields)}
		if r.Bool() {
			s.HasSlice = true
			s.HasA, s.HasB = r.Bool(), r.Bool()
			s.A, s.B = int64(r.Range(-8, 8)), int64(r.Range(-8, 12))
		}
		return s
	case 3:
		s := c12Stx{Kind: 3, Dst: b.field(c12DstFields)}
		n := r.Range(2, 4)
		lastLit := false
		for i := 0; i < n; i++ {
			if !lastLit && r.Bool() {
				s.Parts = append(s.Parts, [2]int{0, b.lit(r.PickStr([]string{"-", "k=", " / ", "€", "p:"}))})
				lastLit = true
			} else {
				s.Parts = append(s.Parts, [2]int{1, b.field(c12SrcFields)})
				lastLit = false
			}
		}
		return s
	case 4:
		key := r.PickInt([]int{1, 1, 4, 3, 9, 0})
		s := c12Stx{Kind: 4, Key: key}
		var froms []string
		switch key {
		case 1:
			froms = c12LevelNames
		case 4:
			froms = c12Apps
		case 3:
			froms = c12Hosts
		case 0:
			froms = []string{"user", "local4", "daemon", "kern"}
		default:
			froms = c12LitValues
		}
		used := map[string]bool{}
		for i, n := 0, r.Range(1, 3); i < n; i++ {
			f := r.PickStr(froms)
			if used[f] {
				continue
			}
			used[f] = true
			s.Pairs = append(s.Pairs, [2]int{b.lit(f), b.lit(r.PickStr(c12LitValues))})
		}
		if r.Bool() {
			s.HasDflt = true
			s.Dflt = b.lit(r.PickStr([]string{"other", "dflt€x", "d"}))
		}
		return s
	case 5, 6:
		// truncate: any field, including those holding literals, mapped values, facility and level names
		key := b.field(c12AnyFields)
		if r.Chance(1, 2) {
			key = r.PickInt([]int{8, 9, 10, 11, 1, 0})
		}
		return c12Stx{Kind: 5, Key: key, MaxLen: r.PickInt([]int{1, 2, 3, 4, 5, 6, 8, 10, 16, 20, 40}), Suffix: b.lit(r.PickStr([]string{"..", "~", "...", " (cut)", "…"}))}
	case 7:
		return c12Stx{Kind: 6, Key: r.PickInt([]int{8, 8, 8, 9, 6})}
	case 8:
		s := c12Stx{Kind: 7}
		for i, n := 0, r.Range(1, 3); i < n; i++ {
			s.Keys = append(s.Keys, b.field(c12AnyFields))
		}
		return s
	default:
		return c12Stx{Kind: 1, Dst: b.field(c12DstFields), Site: b.lit(r.PickStr(c12LitValues))}
	}
}

func (b *c12Builder) conds() []c12Cond {
	r := b.r
	var cs []c12Cond
	used := map[int]bool{}
	for i, n := 0, r.Range(1, 2); i < n; i++ {
		f := r.PickInt([]int{4, 4, 3, 1, 6, 9, 8})
		if used[f] {
			continue
		}
		used[f] = true
		var vals []string
		switch f {
		case 4:
			vals = c12Apps
		case 3:
			vals = c12Hosts
		case 1:
			vals = c12LevelNames
		case 6:
			vals = c12Sources
		default:
			vals = c12LitValues
		}
		switch r.Intn(5) {
		case 0, 1:
			cs = append(cs, c12Cond{0, f, b.lit(r.PickStr(vals))})
		case 2:
			cs = append(cs, c12Cond{1, f, b.lit(r.PickStr(vals))})
		case 3:
			cs = append(cs, c12Cond{2, f, 0})
		default:
			cs = append(cs, c12Cond{3, f, r.PickInt([]int{0, 1, 3, 10, 50})})
		}
	}
	return cs
}

func (b *c12Builder) prog(min, max int, allowDrop bool) []c12Tx {
	r := b.r
	var p []c12Tx
	for i, n := 0, r.Range(min, max); i < n; i++ {
		switch {
		case r.Chance(1, 5):
			t := c12Tx{Kind: 8, Conds: b.conds()}
			for j, m := 0, r.Range(1, 3); j < m; j++ {
				t.Body = append(t.Body, b.stx())
			}
			p = append(p, t)
		case allowDrop && r.Chance(1, 10):
			p = append(p, c12Tx{Kind: 9, Conds: b.conds()})
		default:
			p = append(p, c12Tx{Kind: 0, S: b.stx()})
		}
	}
	return p
}

func (b *c12Builder) outputs() {
	r := b.r
	pc := b.pc
	for k := 0; k < pc.NOut; k++ {
		var o c12Out
		o.Env = [][]int{{3}, {3, 4}, {4, 6, 3}, {11}}[r.Intn(4)]
		for _, f := range []int{0, 2, 5, 7, 9, 10, 12} {
			if r.Chance(1, 4) {
				o.Hidden = append(o.Hidden, f)
			}
		}
		if r.Chance(2, 3) {
			w := c12Rw{Field: 8}
			if r.Bool() {
				f := r.PickInt([]int{9, 10, 4})
				w.Inline = append(w.Inline, [2]int{f, b.lit(fname(f) + "=")})
			}
			// several outputs may unescape the same field: the rewriter no longer sets the flag on the shared record
			if r.Bool() {
				w.Unescape = true
			}
			o.Rw = append(o.Rw, w)
		}
		pc.Outs = append(pc.Outs, o)
	}
}

func c12NewPipe(r *Rng) *c12Builder {
	pc := &c12Pipe{TruncMode: c12TruncMode, LevelMap: true}
	b := &c12Builder{r: r, pc: pc}
	for _, l := range c12LevelNames {
		b.lit(l)
	}
	pc.NOut = r.PickInt([]int{1, 1, 2, 2, 3})
	pc.MinPool = r.PickInt([]int{48, 64, 100, 128, 1024})
	pc.MaxMsg = r.PickInt([]int{64, 96, 200, 1000})
	pc.MaxRec = pc.MaxMsg + r.PickInt([]int{40, 100, 256})
	pc.GC = r.PickInt([]int{0, 0, 1, 2})
	return b
}

func (b *c12Builder) addRecord(in []byte) {
	b.pc.Inputs = append(b.pc.Inputs, in)
	// distinct fallback timestamps: a timestamp leaking from another record would show
	b.pc.TS = append(b.pc.TS, int64(1600000000+len(b.pc.Inputs)*7919))
}

// lengths around every limit that matters: the pooling threshold, the size classes, the message and record limits
func (b *c12Builder) boundaryLen() int {
	r := b.r
	pc := b.pc
	d := r.Range(-2, 2)
	switch r.Intn(5) {
	case 0:
		return pc.MinPool + d
	case 1:
		return 1<<r.Range(6, 11) + d
	case 2:
		return pc.MaxRec + d
	case 3:
		return pc.MaxRec + pc.MaxMsg/2 + d
	default:
		return 32 + r.Range(0, 3)
	}
}

func (b *c12Builder) stream(n int) {
	r := b.r
	var pool [][]byte
	for len(b.pc.Inputs) < n {
		switch {
		case len(pool) > 0 && r.Chance(1, 4):
			// exact repeat of an earlier record
			b.addRecord(pool[r.Intn(len(pool))])
		case r.Chance(1, 8):
			b.addRecord(b.malformed())
		default:
			var in []byte
			switch r.Intn(8) {
			case 6:
				// message length exactly around the message limit (ASCII, so that a cut never splits a rune)
				in = b.recordMsg(b.pc.MaxMsg+r.Range(-2, 2), false)
			case 7:
				in = b.recordMsg(r.Range(0, 40), true)
			case 0, 1:
				in = b.record(-1, r.Chance(1, 4))
			case 2, 3:
				in = b.record(b.boundaryLen(), r.Chance(1, 6))
			case 4:
				in = b.record(b.pc.MinPool+r.Range(1, 400), r.Chance(1, 4)) // pooled
			default:
				in = b.record(b.pc.MaxRec+r.Range(0, 60), false) // overflowing message, cut may fall inside a rune
			}
			pool = append(pool, in)
			b.addRecord(in)
		}
	}
}

func (b *c12Builder) batches() {
	r := b.r
	left := len(b.pc.Inputs)
	for left > 0 {
		sz := r.PickInt([]int{1, 1, 2, 3, 5, 8, 20})
		if sz > left {
			sz = left
		}
		b.pc.Batches = append(b.pc.Batches, sz)
		left -= sz
	}
}

func c12GenPipe(g *Gen) {
	r := g.R
	emit := func(cls string, pc *c12Pipe) {
		g.Count(cls)
		s, z := pc.encode()
		g.Case(3, s, z)
	}
	// (a) random programs x random streams
	for i := 0; i < g.Pick(170, 6000); i++ {
		b := c12NewPipe(r)
		b.pc.Extract = b.prog(1, 3, true)
		b.pc.Transforms = b.prog(0, 6, true)
		b.outputs()
		b.stream(r.Range(2, 14))
		b.batches()
		emit("pipe-random", b.pc)
	}
	// (b) the shapes of defect 19: a value taken from the configuration (literal / mapValue / level name) or from
	// read-only program data (facility name) is truncated, sometimes only on some records; later records must see
	// the original value
	for i := 0; i < g.Pick(90, 3000); i++ {
		b := c12NewPipe(r)
		pc := b.pc
		pc.Extract = []c12Tx{{Kind: 0, S: c12Stx{Kind: 7, Keys: []int{7}}}}
		dst := r.PickInt([]int{9, 10, 3, 6})
		var src c12Tx
		switch r.Intn(4) {
		case 0:
			src = c12Tx{Kind: 0, S: c12Stx{Kind: 1, Dst: dst, Site: b.lit(r.PickStr(c12LitValues))}}
		case 1:
			dst = 1
			src = c12Tx{Kind: 0, S: c12Stx{Kind: 4, Key: 1, Pairs: [][2]int{{b.lit("error"), b.lit("abc€defghijk")}, {b.lit("info"), b.lit("information")}}, HasDflt: true, Dflt: b.lit("something-else")}}
		case 2:
			dst = 1 // the level names of the input configuration
			src = c12Tx{Kind: 0, S: c12Stx{Kind: 7, Keys: []int{5}}}
		default:
			dst = 0 // facility: string constants of the program
			src = c12Tx{Kind: 0, S: c12Stx{Kind: 7, Keys: []int{5}}}
		}
		suffix := r.PickStr([]string{"..", "~", "#"})
		tr := c12Stx{Kind: 5, Key: dst, MaxLen: r.PickInt([]int{1, 2, 3, 4, 5}), Suffix: b.lit(suffix)}
		if src.S.Kind == 1 && r.Bool() {
			// the value is cut only when it is longer than maxLen + len(suffix): hit that boundary exactly
			if ml := len(pc.Lits[src.S.Site]) - len(suffix) + r.Range(-2, 2); ml >= 1 {
				tr.MaxLen = ml
			}
		}
		pc.Transforms = []c12Tx{src}
		if r.Bool() {
			pc.Transforms = append(pc.Transforms, c12Tx{Kind: 8, Conds: []c12Cond{{0, 4, b.lit(r.PickStr(c12Apps))}}, Body: []c12Stx{tr}})
		} else {
			pc.Transforms = append(pc.Transforms, c12Tx{Kind: 0, S: tr})
		}
		if r.Bool() {
			pc.Transforms = append(pc.Transforms, c12Tx{Kind: 0, S: c12Stx{Kind: 2, Dst: 11, Src: dst}})
		}
		b.outputs()
		b.stream(r.Range(3, 10))
		b.batches()
		emit("pipe-truncate-shared", pc)
	}
	// (b') the three witnesses of defect 19 as the Coq theorems state them (C12_truncate_shared_refuted,
	// C12_truncate_static_fault_refuted) and the level-name variant
	for w := 0; w < 3; w++ {
		b := c12NewPipe(r)
		pc := b.pc
		pc.NOut, pc.MinPool, pc.MaxMsg, pc.MaxRec, pc.GC = 1, 48, 200, 456, 0
		pc.Extract = []c12Tx{{Kind: 0, S: c12Stx{Kind: 7, Keys: []int{7}}}}
		switch w {
		case 0:
			pc.Transforms = []c12Tx{{Kind: 0, S: c12Stx{Kind: 1, Dst: 9, Site: b.lit("abc€defghijk")}},
				{Kind: 0, S: c12Stx{Kind: 5, Key: 9, MaxLen: 5, Suffix: b.lit("..")}}}
		case 1:
			pc.Transforms = []c12Tx{{Kind: 0, S: c12Stx{Kind: 5, Key: 0, MaxLen: 2, Suffix: b.lit("~")}}}
		default:
			pc.Transforms = []c12Tx{{Kind: 0, S: c12Stx{Kind: 5, Key: 1, MaxLen: 1, Suffix: b.lit("~")}}}
		}
		pc.Outs = []c12Out{{Env: []int{3}}}
		in := []byte("<163>1 2019-08-15T15:50:46Z host1 app 123 src - hello world, this is a message")
		in2 := []byte("<165>1 2019-08-15T15:50:46Z host2 app 123 src - a notice, then the first record again")
		for _, x := range [][]byte{in, in2, in, in2} {
			b.addRecord(x)
		}
		pc.Batches = []int{1, 1, 2}
		emit("pipe-defect19-witness", pc)
	}
	// (c) a stream and a permutation of it on the same configuration (the per-record results must be the same set;
	// checked through the fresh-pipeline oracle on both)
	for i := 0; i < g.Pick(40, 800); i++ {
		b := c12NewPipe(r)
		b.pc.Extract = b.prog(1, 2, false)
		b.pc.Transforms = b.prog(1, 5, true)
		b.outputs()
		b.stream(r.Range(3, 9))
		b.batches()
		emit("pipe-order", b.pc)
		pc2 := *b.pc
		pc2.Inputs = append([][]byte{}, b.pc.Inputs...)
		for j := len(pc2.Inputs) - 1; j > 0; j-- {
			k := r.Intn(j + 1)
			pc2.Inputs[j], pc2.Inputs[k] = pc2.Inputs[k], pc2.Inputs[j]
		}
		emit("pipe-order-permuted", &pc2)
	}
	// (d) production pooling threshold (1024) with records on both sides of it and of the 2048/4096 classes
	for i := 0; i < g.Pick(25, 400); i++ {
		b := c12NewPipe(r)
		pc := b.pc
		pc.MinPool, pc.MaxMsg, pc.MaxRec = 1024, 3000, 3256
		pc.Extract = b.prog(1, 2, false)
		pc.Transforms = b.prog(0, 4, true)
		b.outputs()
		for j, n := 0, r.Range(3, 8); j < n; j++ {
			l := r.PickInt([]int{1022, 1023, 1024, 1025, 1026, 2046, 2047, 2048, 2049, 100, 1500, 3255, 3256, 3257, 3400, 4095, 4096, 4097})
			b.addRecord(b.record(l, r.Chance(1, 5)))
			if r.Chance(1, 3) {
				b.addRecord(b.pc.Inputs[r.Intn(len(b.pc.Inputs))])
			}
		}
		b.batches()
		emit("pipe-pool-1024", pc)
	}
	// (d') recycling stress: many pooled records of two size classes, tiny batches, repeats, no forced GC: nearly every
	// record after the first runs on a recycled struct and a recycled buffer holding another record's bytes
	for i := 0; i < g.Pick(50, 1500); i++ {
		b := c12NewPipe(r)
		pc := b.pc
		pc.GC = 0
		pc.MinPool = r.PickInt([]int{48, 64})
		pc.MaxMsg, pc.MaxRec = 400, 500
		pc.Extract = b.prog(1, 2, true)
		pc.Transforms = b.prog(0, 5, true)
		b.outputs()
		la, lb := r.Range(70, 120), r.Range(130, 250)
		var pool [][]byte
		for j, n := 0, r.Range(8, 18); j < n; j++ {
			switch {
			case len(pool) > 1 && r.Chance(1, 3):
				b.addRecord(pool[r.Intn(len(pool))])
			case r.Chance(1, 10):
				b.addRecord(b.malformed())
			default:
				l := la
				if r.Bool() {
					l = lb
				}
				in := b.record(l+r.Range(-3, 3), r.Chance(1, 5))
				pool = append(pool, in)
				b.addRecord(in)
			}
		}
		left := len(pc.Inputs)
		for left > 0 {
			sz := r.PickInt([]int{1, 1, 1, 2})
			if sz > left {
				sz = left
			}
			pc.Batches = append(pc.Batches, sz)
			left -= sz
		}
		emit("pipe-recycle", pc)
	}
	// (e) smallest legal records, every length 32..40, against longer neighbours
	{
		b := c12NewPipe(r)
		pc := b.pc
		pc.NOut, pc.MinPool = 2, 33
		pc.Extract = []c12Tx{{Kind: 0, S: c12Stx{Kind: 2, Dst: 9, Src: 8}}}
		b.outputs()
		for l := 32; l <= 40; l++ {
			b.addRecord([]byte(("<13>1 - h a - - - " + strings.Repeat("m", 40))[:l]))
			b.addRecord(b.record(100, false))
		}
		b.batches()
		emit("pipe-smallest", pc)
	}
	c12reuse.Lock()
	g.dist["pipe-struct-gets"] += c12reuse.structGet
	g.dist["pipe-struct-reused"] += c12reuse.structGet - c12reuse.structNew
	g.dist["pipe-buffer-gets"] += c12reuse.bufGet
	g.dist["pipe-buffer-reused"] += c12reuse.bufGet - c12reuse.bufNew
	c12reuse.Unlock()
}
