package main

// C15 generators: transform programs (nested to depth 3, every node kind) with records whose
// values are derived from the program (boundary-biased: limits +-2, multi-byte runes on cut
// points, boundaries at the edge of the search range, blank labels, escapes, same-length
// replacements), sequences with exact repeats through one instance, focused single-node
// streams with small-alphabet enumeration, and a separate malformed-configuration stream.

import (
	"fmt"
	"strconv"
	"strings"
)

var c15Schema = []string{"log", "app", "lvl", "cls", "aux"}

type c15G struct {
	g      *Gen
	r      *Rng
	cand   map[string][]string // interesting values per field, derived from the program
	labelN int
}

func (x *c15G) field() string { return c15Schema[x.r.Intn(len(c15Schema))] }

func (x *c15G) add(field string, vs ...string) {
	for _, v := range vs {
		if len(v) <= 250 {
			x.cand[field] = append(x.cand[field], v)
		}
	}
}

var c15Words = []string{"a", "ab", "abc", "Foo", "err", "warn", "x y", "é", "世界", "id=7", "a-b", "kern", "0", "Hi", " ", "A_1"}

func (x *c15G) word() string { return c15Words[x.r.Intn(len(c15Words))] }

// text of exactly n bytes; multi-byte runes are used where they fit
func (x *c15G) text(n int) string {
	var sb strings.Builder
	for sb.Len() < n {
		left := n - sb.Len()
		switch k := x.r.Intn(10); {
		case k == 0 && left >= 2:
			sb.WriteString("é")
		case k == 1 && left >= 3:
			sb.WriteString("世")
		case k == 2 && left >= 4:
			sb.WriteString("😀")
		case k == 3:
			sb.WriteByte(' ')
		case k == 4 && left >= 3:
			// valid runes that "look like an error" to a decoder: U+FFFD itself, noncharacters, the surrogate neighbours
			sb.WriteString(x.r.PickStr([]string{"\uFFFD", "\uFFFD", "\uFFFF", "\uFFFE", "\uD7FF", "\uE000"}))
		default:
			sb.WriteByte("abcdefghijklmnopqrstuvwxyz0123456789"[x.r.Intn(36)])
		}
	}
	return sb.String()
}

func (x *c15G) ascii(n int) string {
	b := make([]byte, n)
	for i := range b {
		b[i] = "abcxyz019_"[x.r.Intn(10)]
	}
	return string(b)
}

// ---------------------------------------------------------------- matchers

func (x *c15G) matcher() []c15Match {
	n := 1
	if x.r.Chance(1, 4) {
		n = 2
	}
	var m []c15Match
	used := map[string]bool{}
	for len(m) < n {
		k := x.field()
		if used[k] {
			continue
		}
		used[k] = true
		fm := c15Match{Key: k}
		w := x.word()
		switch x.r.Intn(14) {
		case 0:
			fm.Op, fm.Arg = opPlain, w
		case 1, 2:
			fm.Op = opAny
		case 3:
			fm.Op, fm.Arg = opEq, w
		case 4:
			fm.Op, fm.Arg = opNot, w
		case 5, 6:
			fm.Op, fm.Arg = opStart, w
		case 7:
			fm.Op, fm.Arg = opEnd, w
		case 8:
			fm.Op, fm.Arg = opContain, w
		case 9:
			fm.Op, fm.Arg = opGlob, x.r.PickStr([]string{"a*", "*b", "*ab*", "a*c", "Foo", "*", "a**b", "err*:*"})
		case 10:
			fm.Op, fm.Arg = opRegex, x.r.PickStr([]string{"ab", "^ab", "ab$", "^Foo$", "a(b)?c", "err"})
		case 11, 12:
			fm.Op, fm.Arg = opLenGt, strconv.Itoa(x.r.PickInt([]int{0, 1, 2, 3, 5, 8, -1}))
		default:
			fm.Op, fm.Arg = opLenLt, strconv.Itoa(x.r.PickInt([]int{0, 1, 2, 3, 5, 8}))
		}
		x.matchCands(fm)
		m = append(m, fm)
	}
	return m
}

func (x *c15G) matchCands(fm c15Match) {
	a := fm.Arg
	switch fm.Op {
	case opLenGt, opLenLt:
		n, _ := strconv.Atoi(a)
		for d := -1; d <= 1; d++ {
			if n+d >= 0 {
				x.add(fm.Key, x.text(n+d))
			}
		}
	case opGlob, opRegex:
		lit := strings.NewReplacer("*", "", "^", "", "$", "", "(", "", ")", "", "?", "").Replace(a)
		x.add(fm.Key, lit, lit+"z", "z"+lit, "z"+lit+"z", strings.ReplaceAll(a, "*", "zz"), "ac", "abc", "err: x:y")
	default:
		x.add(fm.Key, a, a+"x", "x"+a, "x"+a+"x", a+a)
		if len(a) > 1 {
			x.add(fm.Key, a[:len(a)-1], a[1:])
		}
	}
}

// ---------------------------------------------------------------- templates

func (x *c15G) bound(vlen int) string {
	switch x.r.Intn(7) {
	case 0:
		return ""
	case 1:
		return strconv.Itoa(x.r.Range(-4, 4))
	case 2:
		return strconv.Itoa(x.r.PickInt([]int{vlen, -vlen, vlen + 1, -vlen - 1, vlen - 1, 1 - vlen}))
	case 3:
		return x.r.PickStr([]string{"0", "-0", "1", "-1", "2147483647", "2147483648", "-2147483648", "9223372036854775807", "-9223372036854775808"})
	default:
		return strconv.Itoa(x.r.Range(-8, 8))
	}
}

func (x *c15G) varRef() string {
	f := x.field()
	vlen := x.r.Range(0, 6)
	x.add(f, x.text(vlen), x.text(vlen+1), x.ascii(vlen))
	switch x.r.Intn(4) {
	case 0:
		return "$" + f
	case 1:
		return "${" + f + "}"
	default:
		return "${" + f + "[" + x.bound(vlen) + ":" + x.bound(vlen) + "]}"
	}
}

func (x *c15G) template() string {
	switch x.r.Intn(6) {
	case 0:
		return x.r.PickStr([]string{"const", "10", "x y", "é=世", "{}", "a}b", "[0:1]"})
	case 1:
		return x.varRef()
	default:
		var sb strings.Builder
		n := x.r.Range(2, 4)
		for i := 0; i < n; i++ {
			if x.r.Bool() {
				v := x.varRef()
				if sb.Len() > 0 && v[1] != '{' {
					// "$name" directly after a literal is fine; a literal word character after it would extend the name
				}
				sb.WriteString(v)
				if v[1] != '{' {
					sb.WriteString(x.r.PickStr([]string{" ", ":", "-", "=", "/", ""}))
				}
			} else {
				sb.WriteString(x.r.PickStr([]string{"task=", " ", ":", "-", "[", "] ", "é", "_", "x"}))
			}
		}
		return sb.String()
	}
}

// ---------------------------------------------------------------- extractHead / extractTail

func c15EscapePat(s string) string {
	return strings.NewReplacer(`\`, `\\`, `[`, `\[`, `]`, `\]`, `*`, `\*`).Replace(s)
}

type c15Class struct {
	expr string
	ok   string // bytes in the class
	bad  string // bytes outside
}

var c15Classes = []c15Class{
	{"[a-z]", "abmz", "A0 -["}, {"[^ ]", "ab0-]", " "}, {"[0-9a-f-]", "09af-", "g G_"}, {"[A-Za-z0-9_]", "AZaz09_", "- .é"},
	{"[a-z0-9 ]", "az09 ", "A_-"}, {`[a-z\]]`, "az]", "[A "}, {"[^a-c-]", "dz09 ", "abc-"}, {"[-a]", "-a", "b "}, {"[a-]", "-a", "b "},
	{"[é]", "\xc3\xa9", "a \xc3"}, {"[^]", "ab \xff", ""}, {"[0-9]", "0459", "a/:"},
}

func (x *c15G) pick(s string) byte { return s[x.r.Intn(len(s))] }

func (x *c15G) extractNode(head bool) *c15Node {
	n := &c15Node{Kind: kExTail, Key: x.field(), Dest: x.field()}
	if head {
		n.Kind = kExHead
	}
	if x.r.Chance(4, 5) {
		for n.Dest == n.Key {
			n.Dest = x.field()
		}
	}
	lefts := []string{"", "", "[", "<{", "id=", "(", " ", "ab", "*", "."}
	rights := []string{"", "", "]", "] - ", ":", ", ", ")", " ", "ab", "}", "/"}
	left, right := x.r.PickStr(lefts), x.r.PickStr(rights)
	var cls *c15Class
	if x.r.Chance(3, 5) {
		cls = &c15Classes[x.r.Intn(len(c15Classes))]
	}
	// validity: head needs a right boundary or a class, tail a left boundary or a class
	if cls == nil && head && right == "" {
		right = x.r.PickStr(rights[2:])
	}
	if cls == nil && !head && left == "" {
		left = x.r.PickStr(lefts[2:])
	}
	wc := "*"
	if cls != nil {
		wc = cls.expr
	}
	n.Pat = c15EscapePat(left) + wc + c15EscapePat(right)
	maxLen := x.r.PickInt([]int{1, 2, 3, 4, 5, 8, 10, 16, 41, 100})
	n.Num = strconv.Itoa(maxLen)
	// values
	label := func(k int, valid bool) string {
		b := make([]byte, k)
		for i := range b {
			if cls == nil {
				b[i] = "abcXYZ09_ "[x.r.Intn(10)]
			} else if valid || cls.bad == "" {
				if cls.ok == "" {
					b[i] = 'a'
				} else {
					b[i] = x.pick(cls.ok)
				}
			} else {
				b[i] = x.pick(cls.ok + cls.bad)
			}
		}
		if !valid && cls != nil && cls.bad != "" && k > 0 {
			b[x.r.Intn(k)] = x.pick(cls.bad)
		}
		return string(b)
	}
	wrap := func(lbl, rest string) string {
		if head {
			return left + lbl + right + rest
		}
		return rest + left + lbl + right
	}
	bnd := right
	if !head {
		bnd = left
	}
	for i := 0; i < 10; i++ {
		rest := x.text(x.r.Range(0, 6))
		switch x.r.Intn(9) {
		case 0: // boundary exactly around the edge of the search range
			k := maxLen - len(bnd) + x.r.Range(-2, 2)
			if k < 0 {
				k = 0
			}
			x.add(n.Key, wrap(label(k, true), rest), wrap(label(k, true), ""))
		case 1:
			x.add(n.Key, wrap(label(x.r.Range(1, 5), false), rest))
		case 2: // blanks around and all-blank labels
			x.add(n.Key, wrap(" "+label(x.r.Range(0, 3), true)+"  ", rest), wrap(x.r.PickStr([]string{" ", "  ", "\t", " \x01 "}), rest))
		case 3: // empty label, missing boundaries, the boundary alone
			x.add(n.Key, wrap("", rest), left, right, left+right, rest)
		case 4: // boundary twice
			x.add(n.Key, wrap(label(2, true)+bnd+label(2, true), rest))
		case 5:
			if head {
				x.add(n.Key, left+label(x.r.Range(1, 4), true)+rest)
			} else {
				x.add(n.Key, rest+label(x.r.Range(1, 4), true)+right)
			}
		default:
			x.add(n.Key, wrap(label(x.r.Range(0, 6), true), rest))
		}
	}
	return n
}

// ---------------------------------------------------------------- nodes

func (x *c15G) truncateNode() *c15Node {
	n := &c15Node{Kind: kTruncate, Key: x.field()}
	m := x.r.PickInt([]int{1, 2, 3, 4, 5, 6, 8, 10, 16})
	n.Num = strconv.Itoa(m)
	n.Suffix = x.r.PickStr([]string{".", "..", "...", "…", " ... (cut)", "x"})
	limit := m + len(n.Suffix)
	for i := 0; i < 8; i++ {
		total := limit + x.r.Range(-2, 3)
		if total < 0 {
			total = 0
		}
		switch x.r.Intn(4) {
		case 0:
			x.add(n.Key, x.ascii(total))
		case 1, 2:
			// a multi-byte rune placed so that it straddles or touches the cut at m
			run := x.r.PickStr([]string{"é", "世", "😀", "é世", "世界", "\x80", "\xe4\xb8", "\xf0\x9f\x98", "\xff", "\xe4\xb8\x96\x80", "\x80é",
				"\uFFFD", "\uFFFD\uFFFD", "é\uFFFD", "\uFFFF\uFFFD", "\U0010FFFF", "\uD7FF\uE000", "\xef\xbf", "\uFFFD\xef\xbf"})
			pos := m - x.r.Range(0, len(run))
			if pos < 0 {
				pos = 0
			}
			v := x.ascii(pos) + run
			if len(v) < total {
				v += x.text(total - len(v))
			}
			x.add(n.Key, v)
		default:
			x.add(n.Key, x.text(total))
		}
	}
	return n
}

var c15Escapes = []string{`a\nb`, `\\`, `\`, `a\`, `\t\r\b\f`, `\x`, `\\n`, `x\\\n`, `no escapes`, `tab\there`, `\é`, `é\n世`, `\\\`, `a\\b\qc`}

func (x *c15G) leaf() *c15Node {
	switch x.r.Intn(14) {
	case 0, 1, 2:
		n := &c15Node{Kind: kAddFields}
		used := map[string]bool{}
		for k := x.r.PickInt([]int{1, 1, 1, 2, 3}); len(n.Pairs) < k; {
			f := x.field()
			if !used[f] {
				used[f] = true
				n.Pairs = append(n.Pairs, [2]string{f, x.template()})
			}
		}
		return n
	case 3:
		n := &c15Node{Kind: kDelFields}
		for k := x.r.Range(1, 2); len(n.Keys) < k; {
			n.Keys = append(n.Keys, x.field())
		}
		return n
	case 4:
		n := &c15Node{Kind: kMapValue, Key: x.field(), Default: x.r.PickStr([]string{"", "", "dflt", "?"})}
		used := map[string]bool{}
		for k := x.r.Range(1, 3); len(n.Pairs) < k; {
			from := x.word()
			if !used[from] {
				used[from] = true
				to := x.r.PickStr([]string{x.word(), x.ascii(len(from)), "", strings.ToUpper(from)})
				n.Pairs = append(n.Pairs, [2]string{from, to})
				x.add(n.Key, from, from+"x", from[:len(from)-1])
			}
		}
		return n
	case 5, 6:
		x.labelN++
		n := &c15Node{Kind: kDrop, Match: x.matcher(), Label: fmt.Sprintf("d%d", x.labelN)}
		n.Num = strconv.Itoa(x.r.PickInt([]int{100, 100, 100, 1, 33, 50, 60, 99, x.r.Range(1, 99)}))
		return n
	case 7:
		return x.extractNode(true)
	case 8:
		return x.extractNode(false)
	case 9, 10:
		return x.truncateNode()
	case 11:
		n := &c15Node{Kind: kUnescape, Key: x.field()}
		for i := 0; i < 4; i++ {
			x.add(n.Key, x.r.PickStr(c15Escapes), x.word()+x.r.PickStr(c15Escapes)+x.word())
		}
		return n
	case 12:
		n := &c15Node{Kind: kReplace, Key: x.field()}
		n.Pat = x.r.PickStr([]string{"ab", "^ab", "ab$", "a(b)?c", "(?P<x>ab)c", "^Foo$", "x y", "aa", "a", "^a", "a$"})
		n.Repl = x.r.PickStr([]string{"", "XY", "-", "abab", "é", "Q"})
		x.add(n.Key, "ab", "abab", "xabx", "aab", "abc ac", "aaa", "aaaa", "Foo", "Foo ", "x y x y", "cab", "ababab", "a", "b", "ba")
		return n
	default:
		n := &c15Node{Kind: kExtractRe, Key: x.field()}
		a, b := x.field(), x.field()
		n.Pat = x.r.PickStr([]string{
			"(?P<" + a + ">ab)", "^(?P<" + a + ">a)(?P<" + b + ">b)?c", "x(b)(?P<" + a + ">cd)?", "id=(?P<" + a + ">7)$",
			"(?P<" + a + ">a)(?P<" + b + ">a)?", "(ab)(?P<" + a + ">c)",
			"(?P<" + a + ">[0-9]*)-(?P<" + b + ">[a-z]*)", "x(?P<" + a + ">[a-z]*)(?P<" + b + ">7)?"})
		x.add(n.Key, "ab", "xxabyy", "abc", "ac", "xbcd", "xb", "zxbcdz", "id=7", "id=70", "aa", "a", "bca", "-", "12-", "-ab", "x7", "x")
		return n
	}
}

func (x *c15G) node(depth int) *c15Node {
	if depth < 3 && x.r.Chance(3, 10) {
		switch x.r.Intn(4) {
		case 0, 1:
			return &c15Node{Kind: kIf, Match: x.matcher(), Then: x.nodes(depth+1, 1, 2)}
		case 2:
			n := &c15Node{Kind: kSwitch}
			for k := x.r.Range(1, 3); len(n.Cases) < k; {
				n.Cases = append(n.Cases, c15Case{x.matcher(), x.nodes(depth+1, 1, 2)})
			}
			return n
		default:
			return &c15Node{Kind: kBlock, Then: x.nodes(depth+1, 1, 3)}
		}
	}
	return x.leaf()
}

func (x *c15G) nodes(depth, lo, hi int) []*c15Node {
	var ns []*c15Node
	for k := x.r.Range(lo, hi); len(ns) < k; {
		ns = append(ns, x.node(depth))
	}
	return ns
}

// ---------------------------------------------------------------- helpers

func c15Walk(ns []*c15Node, f func(*c15Node)) {
	for _, n := range ns {
		f(n)
		c15Walk(n.Then, f)
		for _, c := range n.Cases {
			c15Walk(c.Then, f)
		}
	}
}

// ---------------------------------------------------------------- records and cases

var c15Generic = []string{"", "a", "ab", "abc", "Foo", "err", "warn", " ", "x y", "é", "世界", "[MyClass1 ] - Initialized",
	"task.log:123e4567-e89b", `a\nb\\c`, "\xff\xfe", "a\x80", "id=7 rest", "kern", "0", "Hi 1", "A_1", "abcdefghijklmnopqrstuvwxyz", "\t", "a b c d e f g h", "\uFFFD", "x\uFFFDy \uFFFD\uFFFF"}

func (x *c15G) value(field string) string {
	cs := x.cand[field]
	switch k := x.r.Intn(20); {
	case k < 12 && len(cs) > 0:
		return cs[x.r.Intn(len(cs))]
	case k < 14:
		return ""
	case k < 18:
		return c15Generic[x.r.Intn(len(c15Generic))]
	default:
		// a value meant for another field
		f2 := x.field()
		if cs2 := x.cand[f2]; len(cs2) > 0 {
			return cs2[x.r.Intn(len(cs2))]
		}
		return x.text(x.r.Range(0, 12))
	}
}

func (x *c15G) records(n int) []*c15Rec {
	var rs []*c15Rec
	for len(rs) < n {
		if len(rs) > 0 && x.r.Chance(1, 4) {
			// exact repeat of an earlier record through the same instance
			old := rs[x.r.Intn(len(rs))]
			rs = append(rs, &c15Rec{Fields: append([]string{}, old.Fields...), RawLen: old.RawLen, Unesc: old.Unesc})
			continue
		}
		r := &c15Rec{RawLen: x.r.PickInt([]int{0, 1, 10, 77, x.r.Range(0, 300)}), Unesc: x.r.Chance(1, 7)}
		for _, f := range c15Schema {
			r.Fields = append(r.Fields, x.value(f))
		}
		rs = append(rs, r)
	}
	return rs
}

func c15Emit(g *Gen, class string, prog []*c15Node, schema []string, recs []*c15Rec) string {
	g.Count(class)
	s := [][]byte{c15Encode(prog), []byte(strings.Join(schema, ","))}
	z := []int64{int64(len(recs))}
	for _, r := range recs {
		for _, f := range r.Fields {
			s = append(s, []byte(f))
		}
		u := int64(0)
		if r.Unesc {
			u = 1
		}
		z = append(z, int64(r.RawLen), u)
	}
	return g.Case(0, s, z)
}

func c15CountKinds(g *Gen, prog []*c15Node) {
	c15Walk(prog, func(n *c15Node) { g.Count("node:" + c15KindNames[n.Kind]) })
}

func recOf(vals ...string) *c15Rec {
	r := &c15Rec{Fields: make([]string, len(c15Schema)), RawLen: 10}
	copy(r.Fields, vals)
	return r
}

// all strings over the alphabet (items may be multi-byte) with at most n items
func c15Enum(alpha []string, n int) []string {
	out := []string{""}
	level := []string{""}
	for i := 0; i < n; i++ {
		var next []string
		for _, p := range level {
			for _, a := range alpha {
				next = append(next, p+a)
			}
		}
		out = append(out, next...)
		level = next
	}
	return out
}

func c15Gen(g *Gen) {
	r := g.R
	c15Fixed(g)
	c15Slices(g)
	c15Truncates(g)
	c15TruncateRuns(g)
	c15TruncateOdd(g)
	c15CleanFamilies(g)
	c15Extracts(g)
	c15ExtractEmpty(g)
	c15Drops(g)
	c15DropLong(g)
	c15Matchers(g)
	c15Unescapes(g)
	c15Edges(g)
	c15SameLength(g)
	c15Long(g)
	c15Malformed(g)
	// random programs
	for i := 0; i < g.Pick(1500, 40000); i++ {
		x := &c15G{g: g, r: r, cand: map[string][]string{}}
		prog := x.nodes(0, 1, 4)
		recs := x.records(r.Range(4, 10))
		// the first record again, several times in a row, through the same instance
		for k := r.Range(0, 3); k > 0; k-- {
			recs = append(recs, &c15Rec{Fields: append([]string{}, recs[0].Fields...), RawLen: recs[0].RawLen, Unesc: recs[0].Unesc})
		}
		out := c15Emit(g, "random-program", prog, c15Schema, recs)
		if out != "" {
			c15CountKinds(g, prog)
		}
	}
}

// ---------------------------------------------------------------- focused streams

func one(n *c15Node) []*c15Node { return []*c15Node{n} }

func c15Fixed(g *Gen) {
	// the documented examples of testdata/config_sample.yml and of the unit tests
	prog := []*c15Node{
		{Kind: kExHead, Key: "log", Pat: `\[*\] - `, Num: "100", Dest: "cls"},
		{Kind: kExTail, Key: "app", Pat: ":[0-9a-f-]", Num: "41", Dest: "aux"},
		{Kind: kAddFields, Pairs: [][2]string{{"lvl", "${aux[-1:]}"}}},
		{Kind: kIf, Match: []c15Match{{"cls", opAny, ""}, {"aux", opAny, ""}}, Then: one(&c15Node{Kind: kAddFields, Pairs: [][2]string{{"aux", "$aux:$cls"}}})},
	}
	c15Emit(g, "fixed", prog, c15Schema, []*c15Rec{
		recOf("[MyClass1 ] - Initialized", "task.log:123e4567-e89b-12d3-a456-426614174000", "", "", ""),
		recOf("[GroupLoader              ] - Hello World [OPEN] - Yes", "task.log", "", "", ""),
		recOf("[ ] - blank label", "x:", "", "", ""),
		recOf("no class", "", "", "", ""),
	})
	c15Emit(g, "fixed", one(&c15Node{Kind: kAddFields, Pairs: [][2]string{{"aux", "${log[-3:-1]}"}}}), c15Schema, []*c15Rec{recOf("56789"), recOf("5"), recOf("")})
	c15Emit(g, "fixed", one(&c15Node{Kind: kTruncate, Key: "log", Num: "5", Suffix: "..."}), c15Schema, []*c15Rec{
		recOf(""), recOf("Foo"), recOf("Hello123"), recOf("HelloWorld"), recOf("1234ЛWorld"), recOf("1234世界World"), recOf("123世界World"), recOf("12世界World")})
	// the order of the fields of one addFields matters when a template reads a field written by the same step
	c15Emit(g, "fixed", one(&c15Node{Kind: kAddFields, Pairs: [][2]string{{"log", "$app"}, {"app", "x-$log"}}}), c15Schema, []*c15Rec{recOf("L", "A"), recOf("", "A"), recOf("L", "")})
	c15Emit(g, "fixed", one(&c15Node{Kind: kAddFields, Pairs: [][2]string{{"cls", "$aux."}, {"aux", "$lvl."}, {"lvl", "$cls."}}}), c15Schema, []*c15Rec{recOf("", "", "1", "2", "3")})
	// unescape only once per record, whatever the key
	c15Emit(g, "fixed", []*c15Node{{Kind: kUnescape, Key: "log"}, {Kind: kUnescape, Key: "app"}}, c15Schema, []*c15Rec{recOf(`a\nb`, `c\td`), recOf(`a`, `c\td`), recOf(``, `c\td`)})
}

func c15Slices(g *Gen) {
	r := g.R
	bounds := []string{"", "0", "1", "2", "3", "4", "5", "-1", "-2", "-3", "-4", "-5", "-0", "7", "-7", "2147483647", "2147483648", "-9223372036854775808", "9223372036854775807"}
	var vals []*c15Rec
	for _, v := range []string{"", "a", "ab", "abc", "abcd", "abcde", "héllo", "世界", "abcdefgh"} {
		vals = append(vals, recOf(v, "", "", "", ""))
	}
	// single-part templates: every pair of bounds (the no-copy shortcut of Run)
	for _, a := range bounds {
		for _, b := range bounds {
			if !g.Thorough() && len(a) > 2 && len(b) > 2 {
				continue
			}
			c15Emit(g, "slice-single", one(&c15Node{Kind: kAddFields, Pairs: [][2]string{{"aux", "${log[" + a + ":" + b + "]}"}}}), c15Schema, vals)
		}
	}
	// multi-part templates packing many slices
	for i := 0; i < g.Pick(40, 600); i++ {
		var sb strings.Builder
		for k := 0; k < 8; k++ {
			part := fmt.Sprintf("${log[%s:%s]}|", r.PickStr(bounds), r.PickStr(bounds))
			if sb.Len()+len(part) > 250 { // the program encoding holds strings of at most 255 bytes
				break
			}
			sb.WriteString(part)
		}
		c15Emit(g, "slice-multi", one(&c15Node{Kind: kAddFields, Pairs: [][2]string{{"aux", sb.String()}}}), c15Schema, vals)
	}
	// tokenizer shapes
	for _, t := range []string{"$log", "${log}", "$log$app", "$log-$app", "${log}${app}", "a${log}b$app c", "$log_x", "${log[:]}", "x", "é$logé", "$log}", "{$log}", "[$log[0:1]]",
		"${log[1:]}x${log[:1]}", "$log:$log", "${log[-1:]}${log[-1:]}", "a b", "${app[0:0]}", "${app[0:0]}${log[5:]}"} {
		c15Emit(g, "template-shapes", one(&c15Node{Kind: kAddFields, Pairs: [][2]string{{"aux", t}}}), c15Schema,
			[]*c15Rec{recOf("hello", "App", "", "", "old"), recOf("", "", "", "", "old"), recOf("h", "", "", "", "")})
	}
}

func c15Truncates(g *Gen) {
	alpha := []string{"a", "é", "世", "😀", "\x80", "\xe4"}
	for _, m := range []int{1, 2, 3, 4, 5} {
		for _, sfx := range []string{".", "..", "…"} {
			node := &c15Node{Kind: kTruncate, Key: "log", Num: strconv.Itoa(m), Suffix: sfx}
			limit := m + len(sfx)
			var recs []*c15Rec
			for _, v := range c15Enum(alpha, g.Pick(4, 5)) {
				if len(v) >= limit-2 && len(v) <= limit+3 {
					recs = append(recs, recOf(v))
				}
			}
			for i := 0; i < len(recs); i += 40 {
				j := i + 40
				if j > len(recs) {
					j = len(recs)
				}
				c15Emit(g, "truncate-enum", one(node), c15Schema, recs[i:j])
			}
		}
	}
}

// long runs of non-ASCII bytes in front of the cut (nothing ASCII within the last dozen bytes), every alignment
func c15TruncateRuns(g *Gen) {
	runes := []string{"é", "世", "😀", "éé世", "世😀", "é😀世", "\x80", "é\xe4"}
	for _, m := range []int{7, 8, 9, 10, 11, 12, 13, 16, 17, 20, 24} {
		node := &c15Node{Kind: kTruncate, Key: "log", Num: strconv.Itoa(m), Suffix: "."}
		var recs []*c15Rec
		for _, u := range runes {
			for pre := 0; pre <= 4; pre++ {
				v := strings.Repeat("a", pre)
				for len(v) < m+len(u)+3 {
					v += u
				}
				recs = append(recs, recOf(v), recOf(v+"tail"))
			}
		}
		c15Emit(g, "truncate-runs", one(node), c15Schema, recs)
	}
}

func c15Extracts(g *Gen) {
	type pc struct {
		head  bool
		pat   string
		alpha []string
	}
	pcs := []pc{
		{true, `\[*\]`, []string{"[", "]", "a", " "}}, {true, `\[[a-z]\] - `, []string{"[", "] - ", "a", "A", " "}},
		{true, `[a-z]:`, []string{"a", ":", "B", " "}}, {true, `[0-9a-f-]`, []string{"a", "-", "g", "0"}}, {true, `*, `, []string{"a", ", ", ",", " "}},
		{true, `id=[0-9] `, []string{"id=", "7", " ", "x"}}, {true, `[^ ]`, []string{"a", " ", "é"}},
		{false, `:[0-9a-f-]`, []string{":", "a", "-", "g"}}, {false, `/*`, []string{"/", "a", " "}}, {false, `.[0-9]`, []string{".", "1", "a"}},
		{false, `<{*}`, []string{"<{", "}", "a", " "}}, {false, `[^ ]`, []string{"a", " ", "é"}}, {false, `[a-z]\]`, []string{"a", "]", "A"}}, {false, ` [a-z]`, []string{" ", "a", "A"}},
	}
	for _, p := range pcs {
		for _, maxLen := range []int{1, 2, 3, 4, 100} {
			kind := kExTail
			if p.head {
				kind = kExHead
			}
			node := &c15Node{Kind: kind, Key: "log", Pat: p.pat, Num: strconv.Itoa(maxLen), Dest: "cls"}
			vals := c15Enum(p.alpha, g.Pick(4, 5))
			var recs []*c15Rec
			for _, v := range vals {
				recs = append(recs, recOf(v, "", "", "keep"))
			}
			for i := 0; i < len(recs); i += 64 {
				j := i + 64
				if j > len(recs) {
					j = len(recs)
				}
				c15Emit(g, "extract-enum", one(node), c15Schema, recs[i:j])
			}
		}
	}
	// trimming: every byte class around the blank / non-blank border (0x20 / 0x21) at both ends of the label
	for _, head := range []bool{true, false} {
		kind, pat := kExTail, `<*>`
		if head {
			kind = kExHead
		}
		node := &c15Node{Kind: kind, Key: "log", Pat: pat, Num: "100", Dest: "cls"}
		var recs []*c15Rec
		for _, v := range c15Enum([]string{" ", "\t", "\x00", "\x1f", "!", "a", "\x7f", "\x80"}, g.Pick(3, 4)) {
			recs = append(recs, recOf("<"+v+">", "", "", "old"))
		}
		for i := 0; i < len(recs); i += 80 {
			j := i + 80
			if j > len(recs) {
				j = len(recs)
			}
			c15Emit(g, "trim-enum", one(node), c15Schema, recs[i:j])
		}
	}
	// same key as source and destination
	c15Emit(g, "extract-samekey", one(&c15Node{Kind: kExHead, Key: "log", Pat: `\[*\]`, Num: "10", Dest: "log"}), c15Schema, []*c15Rec{recOf("[a]b"), recOf("[]b"), recOf("b")})
}

func c15Drops(g *Gen) {
	r := g.R
	for rate := 1; rate <= 100; rate++ {
		if !g.Thorough() && rate > 10 && rate < 90 && rate%7 != 0 && rate != 33 && rate != 50 && rate != 60 {
			continue
		}
		node := &c15Node{Kind: kDrop, Match: []c15Match{{"lvl", opStart, "d"}}, Num: strconv.Itoa(rate), Label: "sampled"}
		var recs []*c15Rec
		for i := 0; i < g.Pick(130, 420); i++ {
			v := "d"
			if r.Chance(1, 5) {
				v = "keep"
			}
			rec := recOf("", "", v)
			rec.RawLen = r.Range(0, 50)
			recs = append(recs, rec)
		}
		c15Emit(g, "drop-stream", one(node), c15Schema, recs)
	}
	// two sampled drops in sequence and nested, with an earlier 100 % drop sharing a label
	prog := []*c15Node{
		{Kind: kDrop, Match: []c15Match{{"app", opEq, "x"}}, Num: "100", Label: "all"},
		{Kind: kDrop, Match: []c15Match{{"lvl", opAny, ""}}, Num: "50", Label: "half"},
		{Kind: kIf, Match: []c15Match{{"log", opLenGt, "0"}}, Then: one(&c15Node{Kind: kDrop, Match: []c15Match{{"log", opStart, "a"}}, Num: "33", Label: "third"})},
		{Kind: kDrop, Match: []c15Match{{"cls", opAny, ""}}, Num: "100", Label: "all"},
	}
	for k := 0; k < g.Pick(6, 60); k++ {
		var recs []*c15Rec
		for i := 0; i < 60; i++ {
			rec := recOf(r.PickStr([]string{"a", "ab", "b", ""}), r.PickStr([]string{"x", "y", "y", "y"}), r.PickStr([]string{"l", "l", ""}), r.PickStr([]string{"", "", "", "c"}))
			rec.RawLen = r.Range(0, 9)
			recs = append(recs, rec)
		}
		c15Emit(g, "drop-mixed", prog, c15Schema, recs)
	}
}

func c15Matchers(g *Gen) {
	args := []string{"a", "ab", "aba", "é", " "}
	vals := c15Enum([]string{"a", "b", "é", " "}, 4)
	var recs []*c15Rec
	for _, v := range vals {
		recs = append(recs, recOf(v))
	}
	emit := func(m c15Match) {
		// "if match then mark": the mark makes the matcher's verdict visible
		node := &c15Node{Kind: kIf, Match: []c15Match{m}, Then: one(&c15Node{Kind: kAddFields, Pairs: [][2]string{{"aux", "Y"}}})}
		for i := 0; i < len(recs); i += 90 {
			j := i + 90
			if j > len(recs) {
				j = len(recs)
			}
			c15Emit(g, "matcher-enum", one(node), c15Schema, recs[i:j])
		}
	}
	for _, op := range []int{opPlain, opEq, opNot, opStart, opEnd, opContain} {
		for _, a := range args {
			emit(c15Match{"log", op, a})
		}
	}
	emit(c15Match{"log", opAny, ""})
	for _, n := range []string{"-1", "0", "1", "2", "3", "4", "5", "007"} {
		emit(c15Match{"log", opLenGt, n})
		emit(c15Match{"log", opLenLt, n})
	}
	for _, p := range []string{"a*", "*b", "*ab*", "a*b", "*", "ab", "a**b"} {
		emit(c15Match{"log", opGlob, p})
	}
	for _, p := range []string{"ab", "^ab", "ab$", "^ab$", "a(b)?a"} {
		emit(c15Match{"log", opRegex, p})
	}
	// conjunction of two fields
	node := &c15Node{Kind: kSwitch, Cases: []c15Case{
		{[]c15Match{{"log", opStart, "a"}, {"app", opLenLt, "2"}}, one(&c15Node{Kind: kAddFields, Pairs: [][2]string{{"aux", "1"}}})},
		{[]c15Match{{"log", opStart, "a"}}, one(&c15Node{Kind: kAddFields, Pairs: [][2]string{{"aux", "2"}}})},
		{[]c15Match{{"app", opAny, ""}}, []*c15Node{{Kind: kAddFields, Pairs: [][2]string{{"aux", "3"}}}, {Kind: kDrop, Match: []c15Match{{"app", opEq, "zz"}}, Num: "100", Label: "zz"}, {Kind: kAddFields, Pairs: [][2]string{{"cls", "after"}}}}},
	}}
	var recs2 []*c15Rec
	for _, a := range []string{"", "a", "ab", "b"} {
		for _, b := range []string{"", "z", "zz", "zzz"} {
			recs2 = append(recs2, recOf(a, b))
		}
	}
	c15Emit(g, "switch-first-match", one(node), c15Schema, recs2)
}

func c15Unescapes(g *Gen) {
	vals := c15Enum([]string{`\`, "n", "t", "x", "b"}, g.Pick(4, 6))
	var recs []*c15Rec
	for _, v := range vals {
		recs = append(recs, recOf(v))
	}
	node := &c15Node{Kind: kUnescape, Key: "log"}
	for i := 0; i < len(recs); i += 100 {
		j := i + 100
		if j > len(recs) {
			j = len(recs)
		}
		c15Emit(g, "unescape-enum", one(node), c15Schema, recs[i:j])
	}
	var recs2 []*c15Rec
	for _, v := range c15Escapes {
		a := recOf(v, v)
		b := recOf(v, v)
		b.Unesc = true
		recs2 = append(recs2, a, b)
	}
	c15Emit(g, "unescape-flag", []*c15Node{{Kind: kUnescape, Key: "app"}, {Kind: kUnescape, Key: "log"}}, c15Schema, recs2)
}

// configurations that must be rejected (none of them may panic)
func c15Malformed(g *Gen) {
	recs := []*c15Rec{recOf("abc x", "abc", "x")}
	bad := [][]*c15Node{
		one(&c15Node{Kind: kAddFields}),
		one(&c15Node{Kind: kAddFields, Pairs: [][2]string{{"nope", "x"}}}),
		one(&c15Node{Kind: kAddFields, Pairs: [][2]string{{"log", "$nope"}}}),
		one(&c15Node{Kind: kAddFields, Pairs: [][2]string{{"log", "$$"}}}),
		one(&c15Node{Kind: kAddFields, Pairs: [][2]string{{"log", "a$"}}}),
		one(&c15Node{Kind: kAddFields, Pairs: [][2]string{{"log", "${app"}}}),
		one(&c15Node{Kind: kAddFields, Pairs: [][2]string{{"log", "${app[1]}"}}}),
		one(&c15Node{Kind: kAddFields, Pairs: [][2]string{{"log", "${app[a:]}"}}}),
		one(&c15Node{Kind: kAddFields, Pairs: [][2]string{{"log", "${app[-:]}"}}}),
		one(&c15Node{Kind: kAddFields, Pairs: [][2]string{{"log", "${ app}"}}}),
		one(&c15Node{Kind: kAddFields, Pairs: [][2]string{{"log", "${app[99999999999999999999:]}"}}}),
		one(&c15Node{Kind: kAddFields, Pairs: [][2]string{{"log", "${app[:-9223372036854775809]}"}}}),
		one(&c15Node{Kind: kAddFields, Pairs: [][2]string{{"log", "$ ${app[99999999999999999999:]}"}}}),
		one(&c15Node{Kind: kDelFields}),
		one(&c15Node{Kind: kDelFields, Keys: []string{"nope"}}),
		one(&c15Node{Kind: kMapValue, Key: "log"}),
		one(&c15Node{Kind: kMapValue, Key: "", Pairs: [][2]string{{"a", "b"}}}),
		one(&c15Node{Kind: kMapValue, Key: "nope", Pairs: [][2]string{{"a", "b"}}}),
		one(&c15Node{Kind: kIf, Then: one(&c15Node{Kind: kUnescape, Key: "log"})}),
		one(&c15Node{Kind: kIf, Match: []c15Match{{"log", opAny, ""}}}),
		one(&c15Node{Kind: kIf, Match: []c15Match{{"nope", opAny, ""}}, Then: one(&c15Node{Kind: kUnescape, Key: "log"})}),
		one(&c15Node{Kind: kIf, Match: []c15Match{{"log", opAny, "x"}}, Then: one(&c15Node{Kind: kUnescape, Key: "log"})}),
		one(&c15Node{Kind: kIf, Match: []c15Match{{"log", opEq, ""}}, Then: one(&c15Node{Kind: kUnescape, Key: "log"})}),
		one(&c15Node{Kind: kIf, Match: []c15Match{{"log", opStart, ""}}, Then: one(&c15Node{Kind: kUnescape, Key: "log"})}),
		one(&c15Node{Kind: kIf, Match: []c15Match{{"log", opLenGt, "x"}}, Then: one(&c15Node{Kind: kUnescape, Key: "log"})}),
		one(&c15Node{Kind: kIf, Match: []c15Match{{"log", opLenLt, "99999999999999999999"}}, Then: one(&c15Node{Kind: kUnescape, Key: "log"})}),
		one(&c15Node{Kind: kIf, Match: []c15Match{{"log", opRegex, "("}}, Then: one(&c15Node{Kind: kUnescape, Key: "log"})}),
		one(&c15Node{Kind: kIf, Match: []c15Match{{"log", opAny, ""}}, Then: one(&c15Node{Kind: kUnescape, Key: "nope"})}),
		one(&c15Node{Kind: kSwitch}),
		one(&c15Node{Kind: kSwitch, Cases: []c15Case{{nil, one(&c15Node{Kind: kUnescape, Key: "log"})}}}),
		one(&c15Node{Kind: kSwitch, Cases: []c15Case{{[]c15Match{{"log", opAny, ""}}, nil}}}),
		one(&c15Node{Kind: kBlock}),
		one(&c15Node{Kind: kBlock, Then: one(&c15Node{Kind: kBlock})}),
		one(&c15Node{Kind: kDrop, Num: "100", Label: "l"}),
		one(&c15Node{Kind: kDrop, Match: []c15Match{{"log", opAny, ""}}, Num: "0", Label: "l"}),
		one(&c15Node{Kind: kDrop, Match: []c15Match{{"log", opAny, ""}}, Num: "101", Label: "l"}),
		one(&c15Node{Kind: kDrop, Match: []c15Match{{"log", opAny, ""}}, Num: "-5", Label: "l"}),
		one(&c15Node{Kind: kDrop, Match: []c15Match{{"log", opAny, ""}}, Num: "50", Label: ""}),
		one(&c15Node{Kind: kDrop, Match: []c15Match{{"log", opAny, ""}}, Num: "abc", Label: "l"}),
		one(&c15Node{Kind: kExHead, Key: "log", Pat: "", Num: "10", Dest: "cls"}),
		one(&c15Node{Kind: kExHead, Key: "log", Pat: "abc", Num: "10", Dest: "cls"}),
		one(&c15Node{Kind: kExHead, Key: "log", Pat: "a[bc", Num: "10", Dest: "cls"}),
		one(&c15Node{Kind: kExHead, Key: "log", Pat: `a\*`, Num: "10", Dest: "cls"}),
		one(&c15Node{Kind: kExHead, Key: "log", Pat: `a*`, Num: "0", Dest: "cls"}),
		one(&c15Node{Kind: kExHead, Key: "log", Pat: `a*b`, Num: "-1", Dest: "cls"}),
		one(&c15Node{Kind: kExHead, Key: "nope", Pat: `a*b`, Num: "5", Dest: "cls"}),
		one(&c15Node{Kind: kExHead, Key: "log", Pat: `a*b`, Num: "5", Dest: "nope"}),
		one(&c15Node{Kind: kExHead, Key: "log", Pat: `a*b`, Num: "5", Dest: ""}),
		one(&c15Node{Kind: kExTail, Key: "log", Pat: `a]*[`, Num: "5", Dest: "cls"}),
		// rejected by VerifyConfig since it builds the extractor (were accepted-then-panic before the C16 fixes)
		one(&c15Node{Kind: kExHead, Key: "log", Pat: "x[]", Num: "10", Dest: "cls"}),
		one(&c15Node{Kind: kExHead, Key: "log", Pat: "[a--z]", Num: "10", Dest: "cls"}),
		one(&c15Node{Kind: kExHead, Key: "log", Pat: "abc*", Num: "10", Dest: "cls"}),
		one(&c15Node{Kind: kExTail, Key: "log", Pat: "*abc", Num: "10", Dest: "cls"}),
		one(&c15Node{Kind: kExTail, Key: "log", Pat: "[^abc--x]", Num: "10", Dest: "cls"}),
		one(&c15Node{Kind: kTruncate, Key: "log", Num: "0", Suffix: "."}),
		one(&c15Node{Kind: kTruncate, Key: "log", Num: "5", Suffix: ""}),
		one(&c15Node{Kind: kTruncate, Key: "", Num: "5", Suffix: "."}),
		one(&c15Node{Kind: kTruncate, Key: "log", Num: "99999999999999999999", Suffix: "."}),
		one(&c15Node{Kind: kUnescape, Key: ""}),
		one(&c15Node{Kind: kUnescape, Key: "nope"}),
		one(&c15Node{Kind: kReplace, Key: "log", Pat: "", Repl: "x"}),
		one(&c15Node{Kind: kReplace, Key: "log", Pat: "(", Repl: "x"}),
		one(&c15Node{Kind: kReplace, Key: "nope", Pat: "a", Repl: "x"}),
		one(&c15Node{Kind: kExtractRe, Key: "log", Pat: "("}),
		one(&c15Node{Kind: kExtractRe, Key: "log", Pat: ""}),
		// named capture that is not a field: rejected by VerifyConfig (was a panic in NewTransform)
		one(&c15Node{Kind: kExtractRe, Key: "log", Pat: "(?P<nope>ab)"}),
	}
	for _, p := range bad {
		c15Emit(g, "malformed", p, c15Schema, recs)
		// the malformed step after and inside valid ones
		pre := &c15Node{Kind: kDelFields, Keys: []string{"aux"}}
		c15Emit(g, "malformed", []*c15Node{pre, p[0]}, c15Schema, recs)
		c15Emit(g, "malformed", one(&c15Node{Kind: kBlock, Then: []*c15Node{pre, p[0]}}), c15Schema, recs)
		c15Emit(g, "malformed", one(&c15Node{Kind: kIf, Match: []c15Match{{"log", opAny, ""}}, Then: one(p[0])}), c15Schema, recs)
	}
	// empty program, schema variations
	c15Emit(g, "malformed", nil, c15Schema, recs)
	c15Emit(g, "schema", one(&c15Node{Kind: kAddFields, Pairs: [][2]string{{"b", "$a"}, {"a", "$b"}}}), []string{"b", "a"}, []*c15Rec{{Fields: []string{"1", "2"}, RawLen: 3}})
}

// the boundary exactly at, just inside and just outside the search range, for every small range
func c15Edges(g *Gen) {
	type pc struct {
		head        bool
		left, right string
		cls         string // "" = '*'
		ok          byte
	}
	pcs := []pc{{true, "[", "]", "", 'a'}, {true, "", ":", "[a-z]", 'k'}, {true, "id=", " ", "[0-9]", '7'}, {true, "<", "] - ", "[^ ]", 'x'},
		{false, ":", "", "[0-9a-f-]", 'e'}, {false, "/", "", "", 'v'}, {false, "<{", "}", "", 'q'}, {false, " - [", "]", "[A-Z]", 'Q'}}
	for _, p := range pcs {
		for _, m := range []int{1, 2, 3, 4, 5, 6, 7, 8, 9, 16, 41, 100} {
			wc := "*"
			if p.cls != "" {
				wc = p.cls
			}
			kind := kExTail
			if p.head {
				kind = kExHead
			}
			node := &c15Node{Kind: kind, Key: "log", Pat: c15EscapePat(p.left) + wc + c15EscapePat(p.right), Num: strconv.Itoa(m), Dest: "cls"}
			bnd := len(p.right)
			if !p.head {
				bnd = len(p.left)
			}
			var recs []*c15Rec
			for d := -3; d <= 3; d++ {
				k := m - bnd + d
				if k < 0 {
					continue
				}
				lbl := strings.Repeat(string(p.ok), k)
				for _, rest := range []string{"", "r", "the rest of the text which is longer than any range used here .............................................................."} {
					v := p.left + lbl + p.right + rest
					if !p.head {
						v = rest + p.left + lbl + p.right
					}
					if len(v) <= 250 {
						recs = append(recs, recOf(v, "", "", "old"))
					}
				}
			}
			c15Emit(g, "extract-edge", one(node), c15Schema, recs)
		}
	}
}

// edits whose result has the same length as (or equals) what was there before
func c15SameLength(g *Gen) {
	c15Emit(g, "same-length", one(&c15Node{Kind: kAddFields, Pairs: [][2]string{{"aux", "${log[0:3]}"}}}), c15Schema,
		[]*c15Rec{recOf("abcdef", "", "", "", "xyz"), recOf("abcdef", "", "", "", "abc"), recOf("abcdef", "", "", "", "ab"), recOf("ab", "", "", "", "ab"), recOf("", "", "", "", "old"), recOf("abcdef", "", "", "", "")})
	c15Emit(g, "same-length", one(&c15Node{Kind: kAddFields, Pairs: [][2]string{{"aux", "$log"}, {"cls", "k=$log"}}}), c15Schema,
		[]*c15Rec{recOf("abc", "", "", "k=xyz", "xyz"), recOf("abc", "", "", "k=abc", "abc"), recOf("", "", "", "c", "a")})
	c15Emit(g, "same-length", one(&c15Node{Kind: kMapValue, Key: "lvl", Pairs: [][2]string{{"abc", "xyz"}, {"ab", "ab"}, {"a", ""}}, Default: "dfl"}), c15Schema,
		[]*c15Rec{recOf("", "", "abc"), recOf("", "", "ab"), recOf("", "", "a"), recOf("", "", "xyz"), recOf("", "", "dfl"), recOf("", "", ""), recOf("", "", "abcd")})
	c15Emit(g, "same-length", one(&c15Node{Kind: kMapValue, Key: "lvl", Pairs: [][2]string{{"abc", "xyz"}}, Default: ""}), c15Schema,
		[]*c15Rec{recOf("", "", "abc"), recOf("", "", "abd"), recOf("", "", "")})
	c15Emit(g, "same-length", one(&c15Node{Kind: kReplace, Key: "log", Pat: "ab", Repl: "XY"}), c15Schema,
		[]*c15Rec{recOf("ab"), recOf("xabx"), recOf("abab"), recOf("ba"), recOf("")})
	c15Emit(g, "same-length", one(&c15Node{Kind: kUnescape, Key: "log"}), c15Schema,
		[]*c15Rec{recOf(`\x\y`), recOf(`\x`), recOf(`\\`), recOf(`\`), recOf(`a\`)})
	c15Emit(g, "same-length", one(&c15Node{Kind: kDelFields, Keys: []string{"log", "log", "aux"}}), c15Schema,
		[]*c15Rec{recOf("a", "b", "c", "d", "e"), recOf("", "b", "", "", "")})
	// the smallest legal settings
	c15Emit(g, "smallest", []*c15Node{{Kind: kTruncate, Key: "log", Num: "1", Suffix: "."}}, c15Schema,
		[]*c15Rec{recOf(""), recOf("a"), recOf("ab"), recOf("abc"), recOf("é"), recOf("éa"), recOf("éab"), recOf("aé"), recOf("\x80bc")})
	c15Emit(g, "smallest", []*c15Node{{Kind: kExHead, Key: "log", Pat: "*:", Num: "1", Dest: "cls"}, {Kind: kExTail, Key: "app", Pat: ":*", Num: "1", Dest: "aux"}}, c15Schema,
		[]*c15Rec{recOf(":", ":"), recOf(":x", "x:"), recOf("a:x", "x:a"), recOf("", ""), recOf("a", "a")})
	c15Emit(g, "smallest", []*c15Node{{Kind: kIf, Match: []c15Match{{"log", opLenGt, "0"}, {"app", opLenLt, "1"}}, Then: one(&c15Node{Kind: kAddFields, Pairs: [][2]string{{"aux", "Y"}}})}}, c15Schema,
		[]*c15Rec{recOf("", ""), recOf("a", ""), recOf("a", "b"), recOf("", "b")})
}

// values far longer than any 16-bit quantity, transported as (unit, repeat count); the programs shorten
// them again so that the output stays small
type c15LongRec struct {
	units  []string
	counts []int
}

func c15EmitLong(g *Gen, prog []*c15Node, recs []c15LongRec) {
	g.Count("long-value")
	s := [][]byte{c15Encode(prog), []byte(strings.Join(c15Schema, ","))}
	z := []int64{int64(len(recs))}
	for range recs {
		z = append(z, 10, 0)
	}
	for _, r := range recs {
		for j := range c15Schema {
			u, k := "", 0
			if j < len(r.units) {
				u, k = r.units[j], r.counts[j]
			}
			s = append(s, []byte(u))
			z = append(z, int64(k))
		}
	}
	g.Case(1, s, z)
}

func c15Long(g *Gen) {
	del := &c15Node{Kind: kDelFields, Keys: []string{"log"}}
	lr := func(unit string, k int) c15LongRec { return c15LongRec{[]string{unit}, []int{k}} }
	c15EmitLong(g, []*c15Node{{Kind: kAddFields, Pairs: [][2]string{{"aux", "x${log[32760:32775]}|${log[-2:]}|${log[39990:]}|${log[:3]}|${log[32767:32768]}"}, {"cls", "${log[65530:]}"}}}, del},
		[]c15LongRec{lr("0123456789", 4000), lr("01234567", 4096), lr("0123456", 4681), lr("0123456789", 7000)})
	c15EmitLong(g, []*c15Node{{Kind: kTruncate, Key: "log", Num: "10", Suffix: "..."}}, []c15LongRec{lr("0123456789", 4000), lr("é", 20000)})
	c15EmitLong(g, []*c15Node{{Kind: kTruncate, Key: "log", Num: "32770", Suffix: "."}, {Kind: kAddFields, Pairs: [][2]string{{"aux", "${log[-4:]}"}}}, del},
		[]c15LongRec{lr("0123456789", 4000), lr("a", 32771), lr("a", 32772), lr("世", 10925)})
	c15EmitLong(g, []*c15Node{{Kind: kExHead, Key: "log", Pat: "*9", Num: "100", Dest: "cls"}, {Kind: kExHead, Key: "log", Pat: "0*END", Num: "40000", Dest: "app"},
		{Kind: kAddFields, Pairs: [][2]string{{"aux", "${log[:5]}..${log[-5:]}"}, {"app", "${app[:4]}"}}}, del}, []c15LongRec{lr("0123456789", 4000), lr("1234567890", 4000)})
	c15EmitLong(g, []*c15Node{{Kind: kUnescape, Key: "log"}, {Kind: kAddFields, Pairs: [][2]string{{"aux", "${log[-6:]}${log[29990:29996]}"}}},
		{Kind: kIf, Match: []c15Match{{"log", opLenGt, "32767"}}, Then: one(&c15Node{Kind: kIf, Match: []c15Match{{"log", opLenLt, "40000"}}, Then: one(&c15Node{Kind: kAddFields, Pairs: [][2]string{{"cls", "big"}}})})}, del},
		[]c15LongRec{lr(strings.Repeat("abcdefghij", 40)+`\\n`, 99), lr("0123456789", 4000), lr("01234567", 4096)})
}
