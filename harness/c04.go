package main

// C04: spilled chunks survive I/O faults and crashes intact or not at all.
// The victim is this binary re-executed ("harness C04 child ..."): it drives the real bufferer like the
// C03 executor, and additionally
//   - lowers RLIMIT_FSIZE around one Accept / OnChunkLeftover so that write(2) inside util.WriteFileAt
//     stops after k bytes (SIGXFSZ ignored): short write without error for k >= 1, EFBIG for k = 0;
//   - dies (os.Exit in util.verifKillPoint, build tag verif) at kill point 1..4 of util.WriteFileAt;
//   - dies at a Crash operation.
// The parent restarts a successor process on the same directory and goes on with the operation list.
// kind 0: operation list (format of C03 + write scripts); kind 1: one util.WriteFileAt call alone.

import (
	"bufio"
	"bytes"
	"fmt"
	"os"
	"os/exec"
	"os/signal"
	"path/filepath"
	"strconv"
	"strings"
	"syscall"

	"github.com/relex/slog-agent/util"
)

// c04LimitFileSize sets the soft RLIMIT_FSIZE to n bytes; the returned function restores it
func c04LimitFileSize(n int64) func() {
	var old syscall.Rlimit
	if err := syscall.Getrlimit(syscall.RLIMIT_FSIZE, &old); err != nil {
		return func() {}
	}
	lim := old
	lim.Cur = uint64(n)
	if err := syscall.Setrlimit(syscall.RLIMIT_FSIZE, &lim); err != nil {
		return func() {}
	}
	return func() { syscall.Setrlimit(syscall.RLIMIT_FSIZE, &old) }
}

func c04ParseInts(s string) []int64 {
	var out []int64
	for _, f := range strings.Split(s, ",") {
		if f == "" {
			continue
		}
		v, _ := strconv.ParseInt(f, 10, 64)
		out = append(out, v)
	}
	return out
}

func c04JoinInts(v []int64) string {
	var sb strings.Builder
	for i, x := range v {
		if i > 0 {
			sb.WriteByte(',')
		}
		sb.WriteString(strconv.FormatInt(x, 10))
	}
	return sb.String()
}

// ---------- victim / successor process ----------

// harness C04 child ops <root> <start> <hash> <obs>     (case line on stdin)
// harness C04 child write <root>                         (case line on stdin)
func c04Child(args []string) {
	signal.Ignore(syscall.SIGXFSZ)
	in := bufio.NewReaderSize(os.Stdin, 1<<20)
	line, _ := in.ReadString('\n')
	c, err := parseCaseLine(strings.TrimSpace(line))
	if err != nil || len(args) < 2 {
		fmt.Println("BAD")
		os.Exit(3)
	}
	out := bufio.NewWriter(os.Stdout)
	defer out.Flush()
	switch args[0] {
	case "write":
		c04ChildWrite(args[1], c, out)
	case "ops":
		start, _ := strconv.Atoi(args[2])
		hash, _ := strconv.ParseInt(args[3], 10, 64)
		c04ChildOps(args[1], c, start, hash, c04ParseInts(args[4]), out)
	}
}

func c04ChildOps(root string, c *Case, start int, hash int64, stale []int64, out *bufio.Writer) {
	ops, ok := c03Ops(c.Z)
	if !ok {
		fmt.Fprintln(out, "BAD")
		return
	}
	w := newC03WorldAt(root, c.S)
	w.faults = true
	w.emptySig = "c04:empty-chunk-offered"
	w.blockedSig = "c04:recovery-blocked"
	w.dirsize = c.Z[0]
	w.hash = hash
	w.staleObs = stale
	for i := 0; i < start && i < len(ops); i++ {
		if ops[i].Code == opAccept {
			w.ever[string(w.poolGet(ops[i].A))] = true
		}
	}
	defer func() {
		if r := recover(); r != nil {
			fmt.Fprintf(out, "F c04:panic\tpanic: %v\n", r)
			fmt.Fprintln(out, "OUT panic")
			out.Flush()
			os.Exit(0)
		}
	}()
	progress := func(i int) {
		q, win, m := w.obs()
		fmt.Fprintf(out, "P %d %d %d,%d,%s\n", i, w.hash, q, win, c04JoinInts(m[:]))
		out.Flush()
	}
	lenient := os.Getenv("VERIF_C04_LENIENT") != ""
	for i := start; i < len(ops); i++ {
		fmt.Fprintf(out, "S %d\n", i)
		out.Flush()
		if !w.step(ops[i]) {
			if lenient {
				fmt.Fprintf(out, "SKIP %d\n", i)
				continue
			}
			fmt.Fprintf(out, "REJECT %d\n", i)
			c04Report(w, out)
			out.Flush()
			w.cleanup()
			return
		}
		progress(i)
		if ops[i].Code == opCrash {
			c04Report(w, out)
			out.Flush()
			os.Exit(98) // the process really ends here; nothing is cleaned up
		}
	}
	fmt.Fprintf(out, "OUT %s\n", w.output())
	w.finishGen()
	c03Oracle(w)
	c04Oracle(w)
	c04Report(w, out)
	out.Flush()
	w.cleanup()
}

func c04Report(w *c03World, out *bufio.Writer) {
	for _, f := range w.fails {
		fmt.Fprintf(out, "F %s\t%s\n", f.Sig, strings.ReplaceAll(f.Desc, "\n", " "))
	}
	// what every consumer of this process received, for the parent's byte comparison
	for _, g := range w.gens {
		for _, t := range g.Taken {
			fmt.Fprintf(out, "T %s %x\n", t.ID, t.Data)
		}
	}
}

// c04Oracle (inside the process that saw the whole generation): a damaged file does not block the others.
// In a generation whose consumer drained everything (queue and window empty at the end, nothing dropped for
// lack of space), every recovered chunk whose file was a non-empty regular file must have been received.
func c04Oracle(w *c03World) {
	for gi, g := range w.gens {
		if !g.Completed || len(g.Recovered) == 0 {
			continue
		}
		got := map[string]bool{}
		for _, t := range g.Taken {
			got[t.ID] = true
		}
		if len(g.Taken) == 0 {
			continue // consumer did not drain: nothing to say
		}
		last := ""
		for _, id := range g.Recovered {
			if got[id] {
				last = id
			}
		}
		for _, id := range g.Recovered {
			b := g.DirAtStart[id]
			if id < last && b != nil && len(b) > 0 && !got[id] {
				w.fail("c04:recovery-blocked", fmt.Sprintf("generation %d: recovered chunk %s (%d bytes, readable) was skipped although later chunks were delivered", gi+1, id, len(b)))
			}
		}
	}
}

func c04ChildWrite(root string, c *Case, out *bufio.Writer) {
	qdir := filepath.Join(root, "q")
	dir, err := os.Open(qdir)
	if err != nil {
		fmt.Fprintln(out, "BAD")
		return
	}
	name, data := string(c.S[0]), c.S[1]
	ws := c.Z[0]
	w := &c03World{qdir: qdir, faults: true}
	undo := w.plantFault(name, ws)
	werr := util.WriteFileAt(dir, name, data, 0o644)
	undo()
	if werr != nil {
		fmt.Fprintln(out, "R err")
	} else {
		fmt.Fprintln(out, "R ok")
	}
}

// ---------- parent ----------

type c04ChildResult struct {
	code   int
	lastS  int
	skips  []int
	lastP  int
	hash   int64
	obs    []int64
	out    string
	reject int
	fails  []Fail
	taken  [][2]string
	lines  []string
}

func c04Spawn(caseLine string, args ...string) c04ChildResult {
	res := c04ChildResult{lastP: -1, lastS: -1, reject: -1}
	cmd := exec.Command(os.Args[0], append([]string{"C04", "child"}, args...)...)
	cmd.Stdin = strings.NewReader(caseLine + "\n")
	var stdout bytes.Buffer
	cmd.Stdout = &stdout
	cmd.Stderr = nil
	err := cmd.Run()
	if err != nil {
		if ee, ok := err.(*exec.ExitError); ok {
			res.code = ee.ExitCode()
		} else {
			res.code = -1
		}
	}
	for _, l := range strings.Split(stdout.String(), "\n") {
		res.lines = append(res.lines, l)
		switch {
		case strings.HasPrefix(l, "P "):
			f := strings.Fields(l)
			if len(f) == 4 {
				res.lastP, _ = strconv.Atoi(f[1])
				res.hash, _ = strconv.ParseInt(f[2], 10, 64)
				res.obs = c04ParseInts(f[3])
			}
		case strings.HasPrefix(l, "S "):
			res.lastS, _ = strconv.Atoi(l[2:])
		case strings.HasPrefix(l, "SKIP "):
			k, _ := strconv.Atoi(l[5:])
			res.skips = append(res.skips, k)
		case strings.HasPrefix(l, "OUT "):
			res.out = l[4:]
		case strings.HasPrefix(l, "REJECT "):
			res.reject, _ = strconv.Atoi(l[7:])
		case strings.HasPrefix(l, "F "):
			p := strings.SplitN(l[2:], "\t", 2)
			if len(p) == 2 {
				res.fails = append(res.fails, Fail{p[0], p[1]})
			}
		case strings.HasPrefix(l, "T "):
			f := strings.Fields(l)
			if len(f) == 3 {
				res.taken = append(res.taken, [2]string{f[1], f[2]})
			} else if len(f) == 2 {
				res.taken = append(res.taken, [2]string{f[1], ""})
			}
		case strings.HasPrefix(l, "R "):
			res.out = l[2:]
		}
	}
	return res
}

func c04Run(c *Case) (out string, fails []Fail) {
	root, err := os.MkdirTemp("", "verif-c04-")
	if err != nil {
		panic(err)
	}
	defer os.RemoveAll(root)
	os.Mkdir(filepath.Join(root, "q"), 0o755)
	seen := map[string]bool{}
	addFail := func(f Fail) {
		if !seen[f.Sig] {
			seen[f.Sig] = true
			fails = append(fails, f)
		}
	}
	switch c.Kind {
	case 0:
		o, f, _ := c04RunOps(c, root, addFail, &fails)
		return o, f
	case 1:
		return c04RunWrite(c, root, addFail, &fails)
	case 2, 3:
		return c04ConcRun(c)
	}
	return "badcase", nil
}

func c04RunOps(c *Case, root string, addFail func(Fail), fails *[]Fail) (string, []Fail, []int) {
	var skipped []int
	ops, ok := c03Ops(c.Z)
	if !ok {
		return "badcase", nil, nil
	}
	line := c.Line()
	start, hash := 0, int64(0)
	obs := make([]int64, 13)
	killed := ""
	final := ""
	for round := 0; round < 10 && final == ""; round++ {
		res := c04Spawn(line, "ops", root, strconv.Itoa(start), strconv.FormatInt(hash, 10), c04JoinInts(obs))
		for _, f := range res.fails {
			addFail(f)
		}
		skipped = append(skipped, res.skips...)
		// Everything any consumer of this process received: never an empty chunk, and always exactly the bytes given
		// to Accept under that ID / the complete content the file was created with (a file planted by the list)
		for _, t := range res.taken {
			id, hexData := t[0], t[1]
			if hexData == "" {
				addFail(Fail{"c04:empty-chunk-offered", fmt.Sprintf("consumer received an EMPTY chunk under the name %s (%s): a zero-length chunk file must be treated as corrupt, removed and counted, not forwarded", id, c04OriginOf(ops, c, id))})
			}
			known := false
			accepted := false
			var planted []string
			for _, op := range ops {
				if int(op.A) >= len(c.S) || string(c.S[op.A]) != id {
					continue
				}
				switch {
				case op.Code == opAccept:
					known, accepted = true, true
					want := fmt.Sprintf("%x", c.S[op.B])
					if want != hexData {
						addFail(Fail{"c04:altered-chunk-offered", fmt.Sprintf("chunk %s offered with %d bytes (%s), accepted with %d bytes (%s); %s", id, len(hexData)/2, hexData, len(want)/2, want, c04FaultOf(ops, c, id, killed))})
						if hexData != "" {
							sig := "c04:short-write-forwarded"
							if killed != "" {
								sig = "c04:crash-prefix-forwarded"
							}
							addFail(Fail{sig, fmt.Sprintf("chunk %s forwarded with %d of %d bytes (%s) after %s", id, len(hexData)/2, len(want)/2, hexData, c04FaultOf(ops, c, id, killed))})
						}
					}
				case op.Code == opTamper && op.B == 1 && int(op.C) < len(c.S):
					known = true
					planted = append(planted, fmt.Sprintf("%x", c.S[op.C]))
				case op.Code == opTamper || op.Code == opHold:
					known = true
				}
			}
			if !known || !c03Match(id) {
				addFail(Fail{"c04:foreign-file-forwarded", fmt.Sprintf("consumer received a chunk under the name %s (%d bytes %s) which no chunk was ever accepted under (leftover of an interrupted write?)", id, len(hexData)/2, hexData)})
			}
			if known && !accepted {
				ok := false
				for _, pl := range planted {
					if pl == hexData {
						ok = true
					}
				}
				if !ok {
					addFail(Fail{"c04:altered-chunk-offered", fmt.Sprintf("chunk %s offered with %d bytes (%s); the file was created with %v", id, len(hexData)/2, hexData, planted)})
				}
			}
		}
		if res.lastP >= 0 {
			hash, obs = res.hash, res.obs
		}
		switch {
		case res.reject >= 0:
			final = fmt.Sprintf("reject:%d", res.reject)
		case res.code == 0 && res.out != "":
			final = res.out
		case res.code == 98: // Crash operation: its own progress line was printed
			start = res.lastP + 1
			killed = "crash"
		case res.code == 99: // killed inside util.WriteFileAt during the operation announced last
			dead := res.lastS
			if dead < start {
				dead = start
			}
			for _, v := range obs {
				hash = mixHash(hash, v)
			}
			start = dead + 1
			killed = fmt.Sprintf("kill in op %d", dead)
		default:
			final = fmt.Sprintf("childfail:%d", res.code)
			addFail(Fail{"c04:harness-child", "victim process ended unexpectedly: " + strings.Join(res.lines, " / ")})
		}
		if final == "" && start >= len(ops) {
			// the list ends with the death of the process: project what is left (directory; stale observables)
			res2 := c04Spawn(line, "ops", root, strconv.Itoa(len(ops)), strconv.FormatInt(hash, 10), c04JoinInts(obs))
			final = res2.out
			if final == "" {
				final = fmt.Sprintf("childfail:%d", res2.code)
			}
		}
	}
	if final == "" {
		final = "childfail:rounds"
	}
	return final, *fails, skipped
}

// c04OriginOf says where the file under the name came from, as far as the operation list tells
func c04OriginOf(ops []bufOp, c *Case, id string) string {
	for _, op := range ops {
		if int(op.A) >= len(c.S) || string(c.S[op.A]) != id {
			continue
		}
		switch op.Code {
		case opAccept:
			return fmt.Sprintf("accepted with %d bytes, write script %d", len(c.S[op.B]), op.C)
		case opTamper:
			return "an empty file found in the directory at start-up"
		case opHold:
			return "the harness's FIFO"
		}
	}
	return "unknown origin"
}

func c04FaultOf(ops []bufOp, c *Case, id string, killed string) string {
	for _, op := range ops {
		if (op.Code == opAccept) && string(c.S[op.A]) == id && op.C != 0 {
			return fmt.Sprintf("write script %d (kind %d, n=%d) %s", op.C, op.C%16, op.C/16, killed)
		}
	}
	return "fault on another chunk " + killed
}

func c04RunWrite(c *Case, root string, addFail func(Fail), fails *[]Fail) (string, []Fail) {
	if len(c.S) < 3 || len(c.Z) < 3 {
		return "badcase", nil
	}
	qdir := filepath.Join(root, "q")
	name, data, pre := string(c.S[0]), c.S[1], c.S[2]
	plant := func(n string, kind int64, content []byte) {
		switch kind {
		case 1:
			os.WriteFile(filepath.Join(qdir, n), content, 0o644)
		case 2:
			os.Mkdir(filepath.Join(qdir, n), 0o755)
		}
	}
	plant(name, c.Z[1], pre)
	plant(name+".tmp", c.Z[2], []byte("x"))
	res := c04Spawn(c.Line(), "write", root)
	verdict := res.out
	if res.code == 99 {
		verdict = "died"
	} else if res.code != 0 || verdict == "" {
		addFail(Fail{"c04:harness-child", "writer process ended unexpectedly: " + strings.Join(res.lines, " / ")})
		return fmt.Sprintf("childfail:%d", res.code), *fails
	}
	w := &c03World{qdir: qdir}
	dir := w.listDir()
	var sb strings.Builder
	sb.WriteString("w:" + verdict + ";dir=")
	for i, k := range sortedKeys(dir) {
		if i > 0 {
			sb.WriteByte(',')
		}
		if dir[k] == nil {
			sb.WriteString(k + ":D")
		} else {
			sb.WriteString(fmt.Sprintf("%s:%x", k, dir[k]))
		}
	}
	// oracle: under the chunk's own name there is the complete new content, or what was there before
	got, present := dir[name]
	unchanged := (c.Z[1] == 0 && !present) || (c.Z[1] == 1 && present && got != nil && string(got) == string(pre)) || (c.Z[1] == 2 && present && got == nil)
	complete := present && got != nil && string(got) == string(data)
	switch {
	case verdict == "ok" && !complete:
		addFail(Fail{"c04:short-write-reported-ok", fmt.Sprintf("WriteFileAt(%q, %d bytes) reported success but the file holds %d bytes (write script %d)", name, len(data), len(got), c.Z[0])})
	case verdict != "ok" && !complete && !unchanged && present && len(got) > 0:
		// (an empty file is never forwarded: zero-length rule of the feeder)
		addFail(Fail{"c04:partial-file-left", fmt.Sprintf("WriteFileAt(%q, %d bytes) %s and left %d bytes under the chunk's name (write script %d)", name, len(data), verdict, len(got), c.Z[0])})
	}
	return sb.String(), *fails
}

// ---------- generator ----------

func c04Gen(g *Gen) {
	r := g.R
	c04ConcGen(g)
	if os.Getenv("VERIF_C04_ONLY") == "conc" {
		return // development aid: only the concurrent-writer families
	}
	// ---- kind 1: util.WriteFileAt alone, every fault x boundary sizes x what is there before ----
	sizes := []int{1, 2, 9, 300}
	if g.Thorough() {
		sizes = append(sizes, 3, 4, 5, 15, 16, 17, 31, 32, 33, 255, 256, 257, 4096, 4097) // (the Coq-side line parser is quadratic in the field length: few big ones)
	}
	for _, n := range sizes {
		data := r.Bytes(n, []byte("abcdefghijklmnopqrstuvwxyz"))
		ks := []int64{1, int64(n / 2), int64(n - 1), int64(n), int64(n + 1)}
		if g.Thorough() && n <= 33 {
			ks = nil
			for k := 1; k <= n+1; k++ {
				ks = append(ks, int64(k)) // every offset
			}
		}
		var scripts []int64
		scripts = append(scripts, 0, 4, 5, 7, 8)
		for _, k := range ks {
			if k >= 1 {
				scripts = append(scripts, 3+16*k, 6+16*k)
			}
		}
		for _, ws := range scripts {
			for pre := int64(0); pre <= 2; pre++ {
				for tmpPre := int64(0); tmpPre <= 2; tmpPre++ {
					if n > 9 && (pre == 2 || tmpPre == 1) {
						continue
					}
					g.Count(fmt.Sprintf("write-kind%d", ws%16))
					g.Case(1, [][]byte{[]byte(fmt.Sprintf("w%05d.ff", n)), data, []byte("OLD-CONTENT")}, []int64{ws, pre, tmpPre})
				}
			}
		}
	}
	// ---- kind 0: 3-chunk queue, fault on the chunk at every position, restart, strict consumer ----
	emit := func(pool [][]byte, ops []bufOp, class string) {
		z := []int64{c03DirSize(os.TempDir())}
		for _, op := range ops {
			z = append(z, op.Code, op.A, op.B, op.C)
		}
		g.Count(class)
		g.Case(0, pool, z)
	}
	lens := [][3]int{{10, 10, 10}, {1, 7, 13}, {16, 2, 5}}
	if g.Thorough() {
		lens = append(lens, [3]int{4096, 500, 3}, [3]int{1, 1, 1}, [3]int{300, 20, 257})
		for j := 0; j < 12; j++ {
			lens = append(lens, [3]int{r.Range(1, 40), r.Range(1, 40), r.Range(1, 40)})
		}
	}
	for li, ln := range lens {
		for pos := 0; pos < 3; pos++ {
			n := ln[pos]
			ks := map[int64]bool{1: true, int64(n / 2): true, int64(n - 1): true, int64(n): true}
			if g.Thorough() && n <= 12 {
				for k := 1; k <= n; k++ {
					ks[int64(k)] = true // every offset
				}
			}
			var scripts []int64
			scripts = append(scripts, 4, 5, 7, 8, 1, 2)
			for k := range ks {
				if k >= 1 {
					scripts = append(scripts, 3+16*k, 6+16*k)
				}
			}
			sortInt64(scripts)
			for _, ws := range scripts {
				for _, M := range []int64{1, 4} {
					for _, sameRun := range []bool{false, true} {
						kill := ws%16 >= 5 && ws%16 <= 8
						if kill && sameRun {
							continue
						}
						var pool [][]byte
						var ops []bufOp
						ops = append(ops, bufOp{opRestart, 6, M, 100000})
						ops = append(ops, bufOp{opRegister, 0, 0, 0})
						if M == 4 {
							// two chunks go to the window first so that the three under test are spilled
							for j := 0; j < 2; j++ {
								pool = append(pool, []byte(fmt.Sprintf("c%03d%d.ff", li, j)), r.Bytes(6, []byte("xyz")))
								ops = append(ops, bufOp{opAccept, int64(len(pool) - 2), int64(len(pool) - 1), 0})
							}
						}
						for j := 0; j < 3; j++ {
							pool = append(pool, []byte(fmt.Sprintf("c%03d%d.ff", li, 5+j)), r.Bytes(ln[j], []byte("abcdefghijklmnopqrstuvwxyz")))
							w := int64(0)
							if j == pos {
								w = ws
							}
							ops = append(ops, bufOp{opAccept, int64(len(pool) - 2), int64(len(pool) - 1), w})
							if j == pos && kill {
								break
							}
						}
						if !kill {
							if sameRun {
								// the consumer receives and confirms in the same run
								for j := 0; j < 6; j++ {
									ops = append(ops, bufOp{opTake, 0, 0, 0}, bufOp{opConsumed, 0, 0, 0})
								}
							}
							ops = append(ops, bufOp{opDestroy, 0, 0, 0})
							if M == 4 && !sameRun {
								// nothing was taken: window chunks are saved by the feeder
							}
							ops = append(ops, bufOp{opFinish, 0, 0, 0})
						}
						// restart with a strict consumer that drains everything
						ops = append(ops, bufOp{opRestart, 6, 2, 100000}, bufOp{opRegister, 0, 0, 0})
						for j := 0; j < 6; j++ {
							ops = append(ops, bufOp{opTake, 0, 0, 0}, bufOp{opConsumed, 0, 0, 0})
						}
						ops = append(ops, bufOp{opProbe, 0, 0, 0}, bufOp{opDestroy, 0, 0, 0}, bufOp{opFinish, 0, 0, 0})
						ops = c04Trim(pool, ops)
						emit(pool, ops, fmt.Sprintf("queue-kind%d", ws%16))
					}
				}
			}
		}
	}
	// ---- an EMPTY file under a valid chunk name at every position of the start-up directory (what a crash of an
	// agent without temp+rename, or anything else, may have left): dropped and counted, never offered ----
	for nfiles := 1; nfiles <= 4; nfiles++ {
		for pos := 0; pos < nfiles; pos++ {
			for _, M := range []int64{1, 2} {
				for _, Q := range []int64{int64(nfiles), int64(nfiles) + 2} {
					if g.Tier == "quick" && nfiles == 4 && Q != int64(nfiles) {
						continue
					}
					var pool [][]byte
					var ops []bufOp
					for j := 0; j < nfiles; j++ {
						pool = append(pool, []byte(fmt.Sprintf("e%d%d%02d.ff", nfiles, pos, j)))
						ni := int64(len(pool) - 1)
						if j == pos {
							pool = append(pool, []byte{})
						} else {
							pool = append(pool, r.Bytes(r.Range(1, 12), []byte("abcdefghijklmnopqrstuvwxyz")))
						}
						ops = append(ops, bufOp{opTamper, ni, 1, int64(len(pool) - 1)})
					}
					ops = append(ops, bufOp{opRestart, Q, M, 100000}, bufOp{opRegister, 0, 0, 0})
					for j := 0; j < nfiles+1; j++ {
						ops = append(ops, bufOp{opTake, 0, 0, 0}, bufOp{opConsumed, 0, 0, 0})
					}
					ops = append(ops, bufOp{opProbe, 0, 0, 0}, bufOp{opDestroy, 0, 0, 0}, bufOp{opFinish, 0, 0, 0})
					ops = c04Trim(pool, ops)
					emit(pool, ops, "empty-file-at-startup")
				}
			}
		}
	}
	// ---- a damaged file among recovered ones: zero length, directory, leftover temporary file ----
	for v := 0; v < g.Pick(12, 400); v++ {
		var pool [][]byte
		var ops []bufOp
		nfiles := r.Range(3, 6)
		bad := r.Intn(nfiles)
		for j := 0; j < nfiles; j++ {
			name := fmt.Sprintf("r%03d%d.ff", v, j)
			pool = append(pool, []byte(name))
			ni := int64(len(pool) - 1)
			if j == bad {
				switch r.Intn(3) {
				case 0:
					pool = append(pool, []byte{})
					ops = append(ops, bufOp{opTamper, ni, 1, int64(len(pool) - 1)})
				case 1:
					ops = append(ops, bufOp{opTamper, ni, 2, 0})
				default:
					pool = append(pool, []byte(name+".tmp"), []byte("partial"))
					ops = append(ops, bufOp{opTamper, int64(len(pool) - 2), 1, int64(len(pool) - 1)})
				}
				continue
			}
			pool = append(pool, r.Bytes(r.Range(1, 12), []byte("abcdefghijklmnopqrstuvwxyz")))
			ops = append(ops, bufOp{opTamper, ni, 1, int64(len(pool) - 1)})
		}
		ops = append(ops, bufOp{opRestart, int64(r.Range(nfiles, nfiles+2)), int64(r.Range(1, 3)), 100000}, bufOp{opRegister, 0, 0, 0})
		for j := 0; j < nfiles+1; j++ {
			ops = append(ops, bufOp{opTake, 0, 0, 0}, bufOp{opConsumed, 0, 0, 0})
		}
		ops = append(ops, bufOp{opProbe, 0, 0, 0}, bufOp{opDestroy, 0, 0, 0}, bufOp{opFinish, 0, 0, 0})
		ops = c04Trim(pool, ops)
		emit(pool, ops, "damaged-among-recovered")
	}
}

// c04Trim executes the list once in lenient mode (operations that are not applicable - a Take from an empty
// window, a Consumed without a held chunk - are skipped by the victim, not rejected) and removes what was skipped.
func c04Trim(pool [][]byte, ops []bufOp) []bufOp {
	z := []int64{c03DirSize(os.TempDir())}
	for _, op := range ops {
		z = append(z, op.Code, op.A, op.B, op.C)
	}
	root, err := os.MkdirTemp("", "verif-c04t-")
	if err != nil {
		return ops
	}
	defer os.RemoveAll(root)
	os.Mkdir(filepath.Join(root, "q"), 0o755)
	os.Setenv("VERIF_C04_LENIENT", "1")
	defer os.Unsetenv("VERIF_C04_LENIENT")
	var fails []Fail
	_, _, skipped := c04RunOps(&Case{Kind: 0, S: pool, Z: z}, root, func(Fail) {}, &fails)
	skip := map[int]bool{}
	for _, i := range skipped {
		skip[i] = true
	}
	var out []bufOp
	for i, op := range ops {
		if !skip[i] {
			out = append(out, op)
		}
	}
	return out
}

func sortInt64(v []int64) {
	for i := 1; i < len(v); i++ {
		for j := i; j > 0 && v[j] < v[j-1]; j-- {
			v[j], v[j-1] = v[j-1], v[j]
		}
	}
}

func init() {
	register(&Prop{ID: "C04", Gen: c04Gen, Run: c04Run, Child: c04Child})
}
