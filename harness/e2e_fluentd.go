package main

// e2e_fluentd.go — fakeFluentd: a TCP server speaking the Fluentd Forward protocol (msgpack messages
// [tag, entries | packed bin | gzipped packed bin, option{size,chunk,compressed}] answered by {"ack": chunk}),
// driven by a script with one step per connection ATTEMPT.  Decoding is done by fluentlib's
// forwardprotocol.Message (an implementation independent of slog-agent's encoder).  Every completely
// received chunk, every ACK written and every connection event is logged in the shared trace.

import (
	"fmt"
	"net"
	"sort"
	"strconv"
	"strings"
	"sync"
	"time"

	"github.com/relex/fluentlib/protocol/forwardprotocol"
	"github.com/vmihailenco/msgpack/v4"
)

type ffMode int

const (
	ffHealthy    ffMode = iota // ACK every chunk at once
	ffRefuse                   // accept and close immediately
	ffResetAfter               // receive K chunks, ACK the first AckN of them, then reset the connection (RST)
	ffNeverAck                 // receive everything, never ACK
	ffAckLate                  // ACK every chunk after DelayMs
	ffWrongAck                 // answer the first K chunks with an ACK for a different id, the following ones correctly
)

func (m ffMode) String() string {
	return [...]string{"healthy", "refuse", "reset-after", "never-ack", "ack-late", "wrong-ack"}[m]
}

// ffStep is the behaviour of the server for one connection attempt.
type ffStep struct {
	Mode    ffMode
	K       int // ffResetAfter: chunks received before the reset; ffWrongAck: number of wrong ACKs
	AckN    int // ffResetAfter: how many of the K chunks are ACKed before the reset (0..K)
	DelayMs int // ffAckLate
}

func (s ffStep) String() string {
	switch s.Mode {
	case ffResetAfter:
		return fmt.Sprintf("reset-after(%d,ack %d)", s.K, s.AckN)
	case ffAckLate:
		return fmt.Sprintf("ack-late(%dms)", s.DelayMs)
	case ffWrongAck:
		return fmt.Sprintf("wrong-ack(%d)", s.K)
	}
	return s.Mode.String()
}

// ffEvent is one decoded log event of a chunk.
type ffEvent struct {
	Sec, Nsec int64
	Fields    map[string]string // nested maps flattened with '.', e.g. "environment.host"
	Stamp     e2eStamp          // parsed from the "log" field; HasStamp false if it carries none
	HasStamp  bool
}

// ffChunk is one completely received (or decoded from disk) Forward message.
type ffChunk struct {
	Index      int // position in the server log
	Seq        int // trace sequence number of the receipt
	Attempt    int
	ID         string // option.chunk
	Tag        string
	Size       int // option.size
	Compressed bool
	Events     []ffEvent
	Acked      bool // a correct ACK was written completely
	AckSeq     int  // trace sequence number of that ACK
	AckTried   bool // the server decided to ACK (set, under the trace mutex, BEFORE the ACK is written: the client
	AckTrySeq  int  // cannot have seen the ACK earlier than this point of the trace)
	WrongAcked bool
}

// Stamps lists the stamps of the events in chunk order.
func (c *ffChunk) Stamps() []e2eStamp {
	res := make([]e2eStamp, 0, len(c.Events))
	for _, e := range c.Events {
		if e.HasStamp {
			res = append(res, e.Stamp)
		}
	}
	return res
}

func ffFlatten(prefix string, v interface{}, out map[string]string) {
	switch x := v.(type) {
	case map[string]interface{}:
		for k, vv := range x {
			ffFlatten(prefix+k+".", vv, out)
		}
	case string:
		out[strings.TrimSuffix(prefix, ".")] = x
	case []byte:
		out[strings.TrimSuffix(prefix, ".")] = string(x)
	default:
		out[strings.TrimSuffix(prefix, ".")] = fmt.Sprintf("?%T:%v", v, v)
	}
}

func ffChunkFromMessage(msg *forwardprotocol.Message) *ffChunk {
	c := &ffChunk{ID: msg.Option.Chunk, Tag: msg.Tag, Size: msg.Option.Size, Compressed: msg.Option.Compressed != ""}
	for _, en := range msg.Entries {
		ev := ffEvent{Sec: en.Time.Unix(), Nsec: int64(en.Time.Nanosecond()), Fields: map[string]string{}}
		for k, v := range en.Record {
			ffFlatten(k+".", v, ev.Fields)
		}
		ev.Stamp, ev.HasStamp = e2eParseStamp(ev.Fields["log"])
		c.Events = append(c.Events, ev)
	}
	return c
}

// e2eParseStamp reads "k=<conn> s=<seq> ..." at the start of a message.
func e2eParseStamp(msg string) (e2eStamp, bool) {
	if !strings.HasPrefix(msg, "k=") {
		return e2eStamp{}, false
	}
	rest := msg[2:]
	i := strings.IndexByte(rest, ' ')
	if i < 0 {
		return e2eStamp{}, false
	}
	conn, err := strconv.Atoi(rest[:i])
	if err != nil {
		return e2eStamp{}, false
	}
	rest = rest[i+1:]
	if !strings.HasPrefix(rest, "s=") {
		return e2eStamp{}, false
	}
	rest = rest[2:]
	j := 0
	for j < len(rest) && rest[j] >= '0' && rest[j] <= '9' {
		j++
	}
	if j == 0 {
		return e2eStamp{}, false
	}
	seq, _ := strconv.Atoi(rest[:j])
	return e2eStamp{Conn: conn, Seq: seq}, true
}

// fakeFluentd is the scripted upstream of one output.
type fakeFluentd struct {
	name string
	tr   *e2eTrace
	ln   net.Listener

	// all fields below are guarded by tr.mu (the trace mutex), so that the server log and the trace agree
	script  []ffStep
	tail    ffStep
	attempt int
	chunks  []*ffChunk
	conns   map[net.Conn]struct{}
	closed  bool
	version int // incremented at every server event; waiters poll it
	wake    *sync.Cond
	wg      sync.WaitGroup
}

func newFakeFluentd(name string, tr *e2eTrace) (*fakeFluentd, error) {
	ln, err := net.Listen("tcp", "127.0.0.1:0")
	if err != nil {
		return nil, err
	}
	f := &fakeFluentd{name: name, tr: tr, ln: ln, tail: ffStep{Mode: ffHealthy}, conns: map[net.Conn]struct{}{}}
	f.wake = sync.NewCond(&tr.mu)
	f.wg.Add(1)
	go f.acceptLoop()
	return f, nil
}

func (f *fakeFluentd) Addr() string { return f.ln.Addr().String() }

// SetScript installs the per-attempt script for the attempts from now on and the behaviour after its end.
func (f *fakeFluentd) SetScript(steps []ffStep, tail ffStep) {
	f.tr.mu.Lock()
	f.script = append([]ffStep(nil), steps...)
	f.tail = tail
	f.tr.mu.Unlock()
}

// SetTail drops the rest of the script: every future attempt behaves like step.
func (f *fakeFluentd) SetTail(step ffStep) { f.SetScript(nil, step) }

// KickAll closes every open connection.
func (f *fakeFluentd) KickAll() {
	f.tr.mu.Lock()
	conns := make([]net.Conn, 0, len(f.conns))
	for c := range f.conns {
		conns = append(conns, c)
	}
	f.tr.mu.Unlock()
	for _, c := range conns {
		c.Close()
	}
}

// Close stops the server and waits for its goroutines.
func (f *fakeFluentd) Close() {
	f.tr.mu.Lock()
	f.closed = true
	f.tr.mu.Unlock()
	f.ln.Close()
	f.KickAll()
	f.wg.Wait()
}

// Chunks returns a deep-enough copy of the server log (chunk structs are copied, events shared read-only).
func (f *fakeFluentd) Chunks() []ffChunk {
	f.tr.mu.Lock()
	defer f.tr.mu.Unlock()
	res := make([]ffChunk, len(f.chunks))
	for i, c := range f.chunks {
		res[i] = *c
	}
	return res
}

// Attempts returns the number of connection attempts accepted so far.
func (f *fakeFluentd) Attempts() int {
	f.tr.mu.Lock()
	defer f.tr.mu.Unlock()
	return f.attempt
}

func (f *fakeFluentd) bumpLocked() {
	f.version++
	f.wake.Broadcast()
}

// WaitFor blocks until cond (evaluated on the server log, under the trace mutex) holds or the timeout
// expires; cond is re-evaluated after every server event.
func (f *fakeFluentd) WaitFor(cond func(chunks []*ffChunk) bool, timeout time.Duration) bool {
	deadline := time.Now().Add(timeout)
	timer := time.AfterFunc(timeout, func() {
		f.tr.mu.Lock()
		f.wake.Broadcast()
		f.tr.mu.Unlock()
	})
	defer timer.Stop()
	f.tr.mu.Lock()
	defer f.tr.mu.Unlock()
	for {
		if cond(f.chunks) {
			return true
		}
		if !time.Now().Before(deadline) {
			return false
		}
		f.wake.Wait()
	}
}

// WaitAckedStamps waits until every stamp of the set has been received in a chunk that was ACKed.
func (f *fakeFluentd) WaitAckedStamps(want map[e2eStamp]bool, timeout time.Duration) bool {
	return f.WaitFor(func(chunks []*ffChunk) bool {
		have := map[e2eStamp]bool{}
		for _, c := range chunks {
			if !c.Acked {
				continue
			}
			for _, s := range c.Stamps() {
				have[s] = true
			}
		}
		for s := range want {
			if !have[s] {
				return false
			}
		}
		return true
	}, timeout)
}

// MissingAcked lists the stamps of want that are not in an ACKed chunk (sorted), for diagnostics.
func (f *fakeFluentd) MissingAcked(want map[e2eStamp]bool) []e2eStamp {
	have := map[e2eStamp]bool{}
	for _, c := range f.Chunks() {
		if c.Acked {
			for _, s := range c.Stamps() {
				have[s] = true
			}
		}
	}
	var res []e2eStamp
	for s := range want {
		if !have[s] {
			res = append(res, s)
		}
	}
	sort.Slice(res, func(i, j int) bool {
		if res[i].Conn != res[j].Conn {
			return res[i].Conn < res[j].Conn
		}
		return res[i].Seq < res[j].Seq
	})
	return res
}

func (f *fakeFluentd) acceptLoop() {
	defer f.wg.Done()
	for {
		conn, err := f.ln.Accept()
		if err != nil {
			return
		}
		f.tr.mu.Lock()
		if f.closed {
			f.tr.mu.Unlock()
			conn.Close()
			return
		}
		step := f.tail
		if len(f.script) > 0 {
			step = f.script[0]
			f.script = f.script[1:]
		}
		attempt := f.attempt
		f.attempt++
		f.conns[conn] = struct{}{}
		f.tr.logLocked(e2eEvent{Kind: evSrvAccept, Output: f.name, Attempt: attempt, Note: step.String()})
		f.bumpLocked()
		f.tr.mu.Unlock()
		f.wg.Add(1)
		go f.serve(conn, attempt, step)
	}
}

func ffReset(conn net.Conn) {
	if tc, ok := conn.(*net.TCPConn); ok {
		_ = tc.SetLinger(0)
	}
	conn.Close()
}

func (f *fakeFluentd) endConn(conn net.Conn, attempt int, how string) {
	f.tr.mu.Lock()
	delete(f.conns, conn)
	f.tr.logLocked(e2eEvent{Kind: evSrvClose, Output: f.name, Attempt: attempt, Note: how})
	f.bumpLocked()
	f.tr.mu.Unlock()
}

func (f *fakeFluentd) serve(conn net.Conn, attempt int, step ffStep) {
	defer f.wg.Done()
	if step.Mode == ffRefuse {
		conn.Close()
		f.endConn(conn, attempt, "refuse")
		return
	}
	if step.Mode == ffResetAfter && step.K <= 0 {
		ffReset(conn)
		f.endConn(conn, attempt, "reset")
		return
	}
	dec := msgpack.NewDecoder(conn)
	n := 0
	for {
		var msg forwardprotocol.Message
		if err := dec.Decode(&msg); err != nil {
			conn.Close()
			f.endConn(conn, attempt, "eof")
			return
		}
		if msg.Option.Chunk == "" {
			f.tr.mu.Lock()
			f.tr.logLocked(e2eEvent{Kind: evSrvPing, Output: f.name, Attempt: attempt, Note: msg.Tag})
			f.bumpLocked()
			f.tr.mu.Unlock()
			continue
		}
		n++
		ch := ffChunkFromMessage(&msg)
		ch.Attempt = attempt
		f.tr.mu.Lock()
		ch.Index = len(f.chunks)
		ch.Seq = f.tr.logLocked(e2eEvent{Kind: evSrvChunk, Output: f.name, Attempt: attempt, ChunkID: ch.ID, Tag: ch.Tag,
			Stamps: ch.Stamps(), Chunk: ch.Index})
		f.chunks = append(f.chunks, ch)
		f.bumpLocked()
		f.tr.mu.Unlock()

		ack, wrong := false, false
		switch step.Mode {
		case ffHealthy:
			ack = true
		case ffAckLate:
			time.Sleep(ms(step.DelayMs))
			ack = true
		case ffNeverAck:
		case ffWrongAck:
			ack = true
			wrong = n <= step.K
		case ffResetAfter:
			ack = n <= step.AckN
		}
		if ack {
			id := ch.ID
			if wrong {
				id = "0000000000000000000-99999999.ff"
			}
			data, _ := msgpack.Marshal(forwardprotocol.Ack{Ack: id})
			if !wrong {
				f.tr.mu.Lock()
				ch.AckTried = true
				ch.AckTrySeq = f.tr.logLocked(e2eEvent{Kind: evSrvAckTry, Output: f.name, Attempt: attempt, ChunkID: ch.ID, Chunk: ch.Index})
				f.tr.mu.Unlock()
			}
			_ = conn.SetWriteDeadline(time.Now().Add(5 * time.Second))
			if _, err := conn.Write(data); err != nil {
				conn.Close()
				f.endConn(conn, attempt, "error")
				return
			}
			f.tr.mu.Lock()
			note := "ok"
			if wrong {
				note = "wrong"
				ch.WrongAcked = true
			} else {
				ch.Acked = true
			}
			ch.AckSeq = f.tr.logLocked(e2eEvent{Kind: evSrvAck, Output: f.name, Attempt: attempt, ChunkID: ch.ID, Note: note, Chunk: ch.Index})
			f.bumpLocked()
			f.tr.mu.Unlock()
		}
		if step.Mode == ffResetAfter && n >= step.K {
			ffReset(conn)
			f.endConn(conn, attempt, "reset")
			return
		}
	}
}
